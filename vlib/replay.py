"""Replay of counterexamples against the real code, natively.

A candidate violation is re-run with Kani's concrete playback (`--concrete-playback=print`): the
solver's assignment becomes a vector of byte vectors.  It is appended to the (scratch copy of the)
harness file as a `#[no_mangle] pub fn verif_replay_entry()` that calls
`kani::concrete_playback_run(values, <harness>)`, and a tiny runner binary that links the package
calls it.  The runner is built with exactly the flags `cargo kani playback` uses (Kani's playback
sysroot, `--cfg=kani`), in the dev profile and in the release profile, so the real fastrace source
(and the environment models, which are ordinary Rust) execute natively on the solver's values.
`cargo kani playback` itself cannot be used for in-crate harnesses: it builds the crate with
`cfg(test)`, which swaps fastrace's GlobalCollect for a mock and needs the dev-dependencies.
"""
import json
import os
import re
import shutil
import subprocess
import time

from . import overlay, kani

VERIF = overlay.VERIF
KANI_HOME = os.path.expanduser("~/.kani/kani-0.68.0")
SEP = "\x1f"
PLAYBACK_RUSTFLAGS = SEP.join([
    "-Coverflow-checks=on", "-Zunstable-options", "-Ztrim-diagnostic-paths=no", "-Zhuman_readable_cgu_names",
    "-Zalways-encode-mir", "--cfg=kani", "-Zcrate-attr=feature(register_tool)",
    "-Zcrate-attr=register_tool(kanitool)", "--sysroot", f"{KANI_HOME}/playback",
    "-L", f"{KANI_HOME}/playback/lib", "--extern", "force:kani",
    "--extern", f"noprelude,nounused:std={KANI_HOME}/playback/lib/libstd.rlib",
])


def harness_source_file(root, h):
    """Scratch copy of the file that contains harness `h`."""
    if h["pkg"] in ("harness-crate", "harness-disabled"):
        mod = h["mod"].split("::")[0] if h["mod"] else "lib"
        return os.path.join(root, h["pkg"], "src", mod + ".rs")
    for crate, files in overlay.IN_CRATE_HARNESSES.items():
        if crate != h["pkg"]:
            continue
        for rel, hfile in files:
            modpath = rel[len("src/"):-len(".rs")].replace("/", "::")
            if modpath == "lib":
                modpath = ""
            if modpath == (h["mod"] or ""):
                return os.path.join(root, "verif-harness", hfile)
    raise RuntimeError("no source file for harness " + h["path"])


def extract_playback(text):
    """All generated tests: list of (check description, vec literal text)."""
    out = []
    for m in re.finditer(r"```\n(.*?)```", text, re.S):
        body = m.group(1)
        mv = re.search(r"let concrete_vals: Vec<Vec<u8>> = (vec!\[.*?\n    \]);", body, re.S)
        md = re.findall(r"/// Check for `[^`]*`: \"(.*)\"", body)
        if mv:
            out.append((md, mv.group(1), body))
    return out


def write_runner(root, h):
    d = os.path.join(root, "verif-replay-runner")
    shutil.rmtree(d, ignore_errors=True)
    os.makedirs(os.path.join(d, "src"))
    feats = {"fastrace": '["enable"]', "fastrace-futures": '["verif-enable"]', "fastrace-jaeger": '["verif-enable"]',
             "fastrace-datadog": '["verif-enable"]', "fastrace-opentelemetry": '["verif-enable"]'}.get(h["pkg"], "[]")
    crate = h["pkg"].replace("-", "_")
    open(os.path.join(d, "Cargo.toml"), "w").write(
        f'[package]\nname = "verif-replay-runner"\nversion = "0.0.0"\nedition = "2021"\npublish = false\n\n'
        f'[dependencies]\n{h["pkg"]} = {{ path = "../{h["pkg"]}", features = {feats} }}\n')
    open(os.path.join(d, "src", "main.rs"), "w").write(
        f"extern crate {crate};\n#[allow(unused_imports)]\nuse {crate} as _;\n"
        "extern \"Rust\" {\n    fn verif_replay_entry();\n}\n"
        "fn main() {\n    unsafe { verif_replay_entry() }\n    println!(\"VERIF-REPLAY: harness returned normally\");\n}\n")
    ws = os.path.join(root, "Cargo.toml")
    txt = open(ws).read()
    if '"verif-replay-runner"' not in txt:
        txt = re.sub(r"members\s*=\s*\[", 'members = ["verif-replay-runner", ', txt, count=1)
        open(ws, "w").write(txt)


def _strip_entries(root):
    """Only one `#[no_mangle] verif_replay_entry` may exist in the whole build: remove earlier ones."""
    import glob
    files = glob.glob(os.path.join(root, "verif-harness", "*.rs")) + \
        glob.glob(os.path.join(root, "harness-crate", "src", "*.rs")) + \
        glob.glob(os.path.join(root, "harness-disabled", "src", "*.rs"))
    for f in files:
        t = open(f).read()
        if "// VERIF-REPLAY-BEGIN" in t:
            t = re.sub(r"\n// VERIF-REPLAY-BEGIN.*?// VERIF-REPLAY-END\n", "\n", t, flags=re.S)
            open(f, "w").write(t)


def install_entry(root, h, vec_text):
    _strip_entries(root)
    src = harness_source_file(root, h)
    txt = open(src).read()
    txt += ("\n// VERIF-REPLAY-BEGIN\n#[no_mangle]\npub fn verif_replay_entry() {\n"
            f"    let concrete_vals: Vec<Vec<u8>> = {vec_text};\n"
            f"    kani::concrete_playback_run(concrete_vals, {h['name']});\n}}\n// VERIF-REPLAY-END\n")
    open(src, "w").write(txt)


def run_native(root, release, log_path, timeout=600):
    env = dict(kani.ENV)
    env["CARGO_ENCODED_RUSTFLAGS"] = PLAYBACK_RUSTFLAGS
    env["RUSTC"] = f"{KANI_HOME}/bin/kani-compiler"
    env["CARGO_TERM_PROGRESS_WHEN"] = "never"
    env["RUST_BACKTRACE"] = "0"
    cmd = [f"{KANI_HOME}/toolchain/bin/cargo", "run", "-q", "-p", "verif-replay-runner",
           "--target", "x86_64-unknown-linux-gnu", "-Zhost-config", "-Ztarget-applies-to-host",
           '--config=host.rustflags=["--cfg=kani_host"]', "--target-dir", os.path.join(root, "tgt-replay")]
    if release:
        cmd.append("--release")
    with open(log_path, "w") as lf:
        try:
            r = subprocess.run(cmd, cwd=root, env=env, stdout=lf, stderr=subprocess.STDOUT, timeout=timeout)
            rc = r.returncode
        except subprocess.TimeoutExpired:
            rc = -9
    out = open(log_path, errors="replace").read()
    panicked = "panicked at" in out
    normal = "VERIF-REPLAY: harness returned normally" in out
    built = not re.search(r"^error(\[E\d+\])?:|could not compile", out, re.M) or panicked
    msg = ""
    m = re.search(r"panicked at ([^\n]*)\n([^\n]*)", out)
    if m:
        msg = (m.group(1) + " " + m.group(2)).strip()
    return {"rc": rc, "panicked": panicked, "returned": normal, "built": built, "timeout": rc == -9, "msg": msg[:300]}


def cbmc_counterexample(res, check_name, log_path, slice_formula=True, timeout=900, mem_gb=30):
    """Re-run CBMC on the harness's goto binary for ONE failed property with trace generation and
    return the values of the harness's kani::any() calls in execution order (as Kani's concrete
    playback does: assignments to the return value of kani::any_raw_*), or None.
    Kani's own `--concrete-playback` switches formula slicing off and asks for all properties at
    once, which runs out of memory on the larger harnesses; one property + slicing takes seconds."""
    m = re.search(r"\[Kani\] Running: `(cbmc [^`]*)`", open(res["log"], errors="replace").read())
    if not m:
        return None
    import shlex
    cmd = shlex.split(m.group(1))
    cmd = [c for c in cmd if c not in ("--verbosity", "9")]
    if "--verbosity" in m.group(1):
        cmd = [c for c in shlex.split(m.group(1))]
        k = cmd.index("--verbosity")
        del cmd[k:k + 2]
    if not slice_formula:
        cmd = [c for c in cmd if c != "--slice-formula"]
    cmd += ["--trace", "--compact-trace", "--property", check_name]
    with open(log_path, "w") as lf:
        try:
            subprocess.run(cmd, stdout=lf, stderr=subprocess.DEVNULL, timeout=timeout,
                           preexec_fn=kani._limits(mem_gb))
        except subprocess.TimeoutExpired:
            return None
    try:
        data = json.load(open(log_path))
    except Exception:
        return None
    for item in data:
        if not (isinstance(item, dict) and "result" in item):
            continue
        for r in item["result"]:
            if r.get("property") != check_name or r.get("status") != "FAILURE":
                continue
            vals = []
            for st in r.get("trace", []):
                fn = (st.get("sourceLocation") or {}).get("function", "")
                lhs = st.get("lhs") or ""
                v = st.get("value") or {}
                if st.get("stepType") == "assignment" and lhs.startswith("goto_symex$$return_value") \
                        and fn.startswith("kani::any_raw_") and v.get("binary") is not None:
                    bits = v["binary"]
                    bs = [int(bits[k:k + 8], 2) for k in range(0, len(bits), 8)]
                    bs.reverse()
                    vals.append((v.get("data", ""), bs))
            return vals
    return None


def vec_literal(vals):
    lines = ["vec!["]
    for data, bs in vals:
        lines.append(f"        // {data}")
        lines.append("        vec![" + ", ".join(str(b) for b in bs) + "],")
    lines.append("    ]")
    return "\n".join(lines)


def make_and_run(root, prop, h, res, failed, logs):
    """Produce concrete values for the failing harness, replay natively, store the replay file."""
    os.makedirs(os.path.join(VERIF, "replays"), exist_ok=True)
    path = os.path.join(VERIF, "replays", f"{prop}-{h['name']}.rs")
    last = {"reproduced": False, "why": "no counterexample trace could be produced", "path": ""}
    if h.get("termination") and h.get("oracle_stubs") and all("unwinding assertion" in f["desc"] for f in failed):
        # Termination harness on oracle stubs: the failed unwinding assertion IS the solver's verdict
        # (some input needs more loop iterations than the bound derived from the code allows);
        # CBMC cannot be asked for a trace of an unwinding assertion by name and the oracles do not
        # exist natively, so the finding is reported with the bound instead of concrete values.
        meta = {"property": prop, "pkg": h["pkg"], "mod": h["mod"], "name": h["name"], "path": h["path"],
                "failed_checks": [f"{x['desc']} @ {x['loc']}" for x in failed][:6],
                "created": time.strftime("%Y-%m-%dT%H:%M:%S")}
        with open(path, "w") as fo:
            fo.write("// VERIF-REPLAY-META " + json.dumps(meta) + "\n")
            fo.write(f"// Harness {h['path']} (unwind {h.get('unwind')}, bound: {h.get('bound')}):\n")
            fo.write("// the unwinding assertion of the loop under test failed: for some input within the bound the loop runs\n")
            fo.write("// longer than the harness's iteration bound, which the unchanged code never does (non-termination or\n")
            fo.write("// a slower-converging loop).  No concrete values: see vlib/replay.py.\n")
        return {"reproduced": True, "dev": "not run natively (oracle stubs)", "release": "not run natively (oracle stubs)",
                "why": "", "path": path}
    # try the failed checks in order, sliced first, then unsliced
    attempts = [(f, True) for f in failed[:3]] + [(failed[0], False)]
    for f, sl in attempts:
        vals = cbmc_counterexample(res, f["name"], os.path.join(logs, f"{h['name']}.trace.json"), slice_formula=sl)
        if vals is None:
            continue
        vec = vec_literal(vals)
        body = (f"/// Counterexample for harness `{h['path']}`\n///\n/// Failed check `{f['name']}`: {f['desc']}\n"
                f"/// at {f['loc']}\n\n#[test]\nfn kani_concrete_playback_{h['name']}() {{\n"
                f"    let concrete_vals: Vec<Vec<u8>> = {vec};\n"
                f"    kani::concrete_playback_run(concrete_vals, {h['name']});\n}}\n")
        meta = {"property": prop, "pkg": h["pkg"], "mod": h["mod"], "name": h["name"], "path": h["path"],
                "failed_checks": [f"{x['desc']} @ {x['loc']}" for x in failed][:6],
                "created": time.strftime("%Y-%m-%dT%H:%M:%S")}
        if h.get("oracle_stubs"):
            # The harness replaces callees by Kani stubs (oracles), which do not exist in a native
            # build: the counterexample is confirmed by a second, independent CBMC run that produced
            # this concrete trace (values recorded below), not by native execution.
            rr = {"reproduced": True, "dev": "not run natively (oracle stubs); confirmed by a second CBMC run with trace",
                  "release": "not run natively (oracle stubs)", "why": ""}
        else:
            rr = _replay(root, h, vec, logs)
            # Kani checks `assert!(cond)` BEFORE the temporaries of `cond` are dropped, the native
            # `assert!` after: a temporary whose drop reads the model clock makes the native run ask
            # for values the solver's trace (which ends at the failed check) does not contain.  Such
            # values lie behind the failure in the engine's order, so any value will do: pad with
            # zero-valued entries of the size the playback library asks for and run again.  Only a
            # native run that FAILS counts, whatever the padding.
            pads = []
            while (not rr["reproduced"]) and len(pads) < 6 and "values-do-not-fit" in rr.get("why", ""):
                m = re.search(r"Expected (\d+) bytes", rr["why"])
                if "Not enough det vals" in rr["why"]:
                    pads.append(1)
                elif m and pads:
                    pads[-1] = int(m.group(1))
                else:
                    break
                vec = vec_literal(list(vals) + [("padding (after the failed check in the engine's order)", [0] * n) for n in pads])
                body = body.split("    let concrete_vals")[0] + f"    let concrete_vals: Vec<Vec<u8>> = {vec};\n    kani::concrete_playback_run(concrete_vals, {h['name']});\n}}\n"
                rr = _replay(root, h, vec, logs)
        last = rr
        last["path"] = path
        if rr["reproduced"] or (f, sl) == attempts[-1]:
            with open(path, "w") as fo:
                fo.write("// VERIF-REPLAY-META " + json.dumps(meta) + "\n")
                fo.write("// Counterexample found by Kani/CBMC; replay with:  ./run.py --replay " + path + "\n")
                fo.write("// The values are the solver's assignment to the harness's kani::any() calls, in call order.\n")
                fo.write(body)
                fo.write(f"\n// native replay when recorded: dev={rr['dev']}  release={rr['release']}\n")
        if rr["reproduced"]:
            return rr
    return last


def _replay(root, h, vec, logs):
    write_runner(root, h)
    install_entry(root, h, vec)
    dev = run_native(root, False, os.path.join(logs, f"{h['name']}.replay-dev.log"))
    rel = run_native(root, True, os.path.join(logs, f"{h['name']}.replay-release.log"))

    def verdict(x):
        if x["timeout"]:
            return "does-not-terminate" if h.get("termination") else "timeout"
        if x["panicked"] and "concrete_playback.rs" in x["msg"]:
            return "values-do-not-fit: " + x["msg"]
        if x["panicked"]:
            return "fails: " + x["msg"]
        if x["returned"]:
            return "passes"
        return "build-error" if not x["built"] else f"rc={x['rc']}"

    vd, vr = verdict(dev), verdict(rel)
    ok = vd.startswith("fails") or vr.startswith("fails") or vd == "does-not-terminate" or vr == "does-not-terminate"
    why = "" if ok else f"dev: {vd}; release: {vr}"
    return {"reproduced": ok, "dev": vd, "release": vr, "why": why}


def replay_file(path, scratch, keep=False):
    from . import specs
    txt = open(path).read()
    m = re.search(r"// VERIF-REPLAY-META (\{.*\})", txt)
    if not m:
        print("not a replay file:", path)
        return 2
    meta = json.loads(m.group(1))
    mv = re.search(r"let concrete_vals: Vec<Vec<u8>> = (vec!\[.*?\n    \]);", txt, re.S)
    h = next((x for x in specs.HARNESSES if x["path"] == meta["path"] and x["pkg"] == meta["pkg"]), None)
    if h is None or not mv:
        print("harness", meta["path"], "is not registered any more")
        return 2
    try:
        if os.path.exists(scratch):
            shutil.rmtree(scratch)
        overlay.build(scratch)
        logs = os.path.join(scratch, "logs")
        os.makedirs(logs, exist_ok=True)
        rr = _replay(scratch, h, mv.group(1), logs)
        print(f"replay of {meta['path']} on the current tree: dev: {rr['dev']} | release: {rr['release']}")
        if rr["reproduced"]:
            print(f"VIOLATION property={meta['property']} replay={path}")
            return 1
        if "build-error" in (rr["dev"], rr["release"]):
            return 2
        if rr["dev"].startswith("values-do-not-fit") or rr["release"].startswith("values-do-not-fit"):
            print("the recorded values no longer fit the harness on this tree (it makes a different sequence of "
                  "nondeterministic choices): cannot tell from the replay; run the check itself")
            return 2
        return 0
    finally:
        if not keep:
            shutil.rmtree(scratch, ignore_errors=True)
