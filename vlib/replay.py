"""Replay of counterexamples against the real code, natively (filled in below)."""
import os


def make_and_run(scratch, prop, h, r, failed, logs):
    return {"reproduced": False, "why": "replay not implemented yet", "path": ""}


def replay_file(path, scratch, keep=False):
    print("replay not implemented yet")
    return 2
