"""Texts for MANIFEST.json."""
SOURCE_COMMITS = []  # no hook commits: the overlay is a copy of /repo; "fix:" commits are listed in known_findings.json
NOTES = ("All checks are bounded model checking with Kani 0.68 / CBMC 6.11 of the real fastrace source, compiled in a scratch overlay that is "
         "regenerated from /repo's working tree on every run (no hooks in /repo). exit 0 = every harness held; exit 1 = a counterexample was found "
         "and reproduced natively (dev and/or release profile) on the real code; exit 2 = inconclusive (timeout, out of memory, overlay does not "
         "compile, vacuous harness, counterexample that does not reproduce) — never reported as a pass. Nothing downstream of Receiver::try_recv "
         "(the collector) is decided by any check; see DESIGN.md §4 and each evidence file's not_covered list.")

NOT_APPLICABLE = {
    "C03": "entirely about which report() call records arrive in across collector cycles and across per-thread queues; handle_commands (HashMap-based, "
           "drain/retain loops) is beyond the bounded model checker's reach: one cycle over empty queues gave no verdict in 10 min, with 1-3 commands "
           "none in 15-25 min at 8-24 GB (DESIGN.md §1, §6). The adapter-ordering defect the property mentions is decided under C13/C14.",
    "C08": "collector state after cycles (active_collectors / SPSC_RXS in handle_commands): same code, same measurements as C03 (DESIGN.md §6). "
           "The one link in reach (a receiver is reported closed only when its producer is gone and its ring is empty) is decided under C01.",
    "C19": "the wire bytes are produced by thrift_codec / rmp-serde / the OpenTelemetry SDK behind trait objects (out of reach), and the three convert() "
           "functions build Strings and Vecs per record through iterator chains that exceeded the memory cap in calibration (DESIGN.md §5 C19); "
           "datadog and opentelemetry additionally need reqwest / the OTel SDK to be compiled to goto programs.",
}

_COLL = ("NOT decided: anything the collector does with a received command (handle_commands, amend/mount, reporting, report interval, flush()). ")
_TB = ("Trusted: Kani/CBMC translation and solver; environment models (thread_local -> 3-slot array, rtrb -> linearizable <=8-slot ring with yield hook, "
       "fastant -> non-decreasing clock, rand -> kani::any, parking_lot::Mutex -> flag); the on-paper composition lemmas named in the evidence.")
_QNOTE = ("Decides the queue link (util/spsc.rs, T=u8) and the sender link (which commands an API call pushes, in which order, kept or not on a full ring). "
          + _COLL +
          "Interleaving granularity: whole try_recv calls between producer pushes; arbitrary ring-level producer behaviour between try_recv's two ring "
          "accesses. Histories longer than one operation follow by induction on the acceptance-order invariant (on paper). " + _TB)

CLAIMS = {
    "C01": dict(
        text="From every valid channel state (capacity 1-2, any occupancy, 0-2 parked commands) one send / force_send / thread exit neither loses, duplicates "
             "nor reorders an accepted command with the consumer interleaved at every push; try_recv against the most general producer reports Closed only "
             "when nothing is left and returns the oldest command; finishing a root pushes exactly [SubmitSpans(span, own token), CommitCollect] (commit kept "
             "on a full ring), a child exactly one submit, a closed local-parent scope exactly one local span set.",
        note=_QNOTE),
    "C02": dict(
        text="For every id-generator state the next ids are prefix<<32|counter+1,+2 (distinct, non-zero unless prefix=0 and the counter wraps); local spans "
             "get the innermost open local span as parent and finish restores it (fixed 5-span tree and one step from an arbitrary queue state, all id "
             "values); issued tokens point at the issuing span; current_collect_token substitutes the innermost local span for every token item.",
        note="Recording-time linking only. " + _COLL + "Distinctness across threads rests on the random 32-bit prefix (probabilistic, not claimed). " + _TB),
    "C04": dict(
        text="cancel() pushes exactly one DropCollect for a root and nothing for a child or no-op; DropCollect and CommitCollect are parked on a full ring "
             "and are received in order (one-step induction on the queue incl. thread exit with the consumer interleaved).",
        note=_QNOTE + " That the collector discards a dropped trace, spares traces sharing a span, and ignores cancel() in the default configuration is collector behaviour: not decided."),
    "C05": dict(
        text="An unsampled root sends nothing at creation and gets the not-sampled collect id; submit_spans drops unsampled token items and sends nothing if "
             "none remain (1-2 item tokens, all flag combinations); an unsampled scope records nothing and never calls a property closure; contexts carry the flag.",
        note="Sender side only. " + _COLL + "The CommitCollect(usize::MAX) an unsampled root force-sends must be ignored by the collector: not decided. " + _TB),
    "C06": dict(
        text="SpanQueue records events/properties as pseudo-spans under the innermost open span in attachment order with payload untouched; "
             "Span::add_event/add_properties hand over one pseudo-span of the right kind addressed to the target span; with_properties appends in order.",
        note="Recording side only; strings are opaque literals compared by pointer+length. " + _COLL +
             "Span::add_event/add_properties are decided with a contract stub for Span::enter_with_parent (the real function is decided separately). " + _TB),
    "C07": dict(
        text="Default Kani checks (panics, unwrap, index bounds, overflow, RefCell double borrow, unwinding assertions) hold on: no-op/unsampled spans, "
             "no local parent, empty-token local parent, re-entrant property closure (add_properties), full span stack, thread-local teardown, full ring.",
        note="Only the listed paths (1-3 calls each). Not decided: calls while the collector thread runs, flush(), reporter callbacks, "
             "LocalSpan::with_properties re-entrancy (out of memory at 30 GB), stack overflow, allocation failure. " + _TB),
    "C09": dict(
        text="A send on a full ring returns Err and changes nothing else; force-sent signals are parked, never dropped or reordered while the thread lives "
             "(one-step induction); SpanQueue at capacity skips the excess and keeps parents; a refused scope changes nothing and its guard is harmless.",
        note=_QNOTE + " Capacities are 1-3 (ring), 1-2 (SpanQueue), 0-1 (span stack): the code only compares lengths with the stored capacity."),
    "C10": dict(
        text="finish_span restores the finished span's parent from an arbitrary queue state; register/unregister of an inner scope restores the outer "
             "context (depth, epoch, next parent) exactly; stale handles and foreign epochs change nothing; with no scope every local operation is inert; "
             "set_local_parent/guard drop open and close exactly one scope.",
        note="Depth <= 2 scopes, <= 1 span per scope per harness; deeper nesting by stack-top-locality (on paper). !Send of guards is a compiler fact. " + _TB),
    "C11": dict(
        text="from_span returns (first token item's trace id, the span's own id, its flag) for 1-2 item tokens and None for no-op/empty-token spans; "
             "current_local_parent returns the scope's first item with the innermost local parent, None without a scope or with an empty token; "
             "Span::root copies trace id / parent id / flag from the context.",
        note="Extraction functions only; the remote child's delivered record is collector behaviour. " + _COLL + _TB),
    "C12": dict(
        text="encode_w3c_traceparent for all 2^193 contexts: 55 bytes, fixed separators, every hex digit correct and lowercase, flags 00/01; "
             "decode never panics and equals a 25-line reference parser on every ASCII string of <=4 bytes, on every flags field of 0..3 bytes (00-a-b-XYZ) and every 2-byte version field (VW-a-b-01), any ASCII incl. '-', and (thorough) on 00-H-H-HH / 00-HH-HH-HH field shapes and single-byte corruptions of a 24-byte header; "
             "Display of both id types is fixed-width lowercase hex for all values; FromStr equals the radix-16 grammar on strings of <=3 bytes.",
        note="Decode is bounded to short inputs; uniform behaviour of str::split / from_str_radix on longer fields is std's contract; serde not covered. "
             "Stubs: alloc::fmt::format (String+write_fmt), core::slice::memchr::memchr (naive loop), identical results. " + _TB),
    "C13": dict(
        text="InSpan::poll: during a poll the span is the thread's local parent, afterwards the context is restored and exactly that poll's local span set is "
             "handed over; on completion of a root the local spans precede the commit; a dropped adapter finishes the span once; no-op spans and "
             "enter_on_poll without a parent do nothing.",
        note="<= 2 polls per harness, one adapter, spans built directly. " + _COLL + _TB),
    "C14": dict(
        text="Stream::poll_next and Sink::{poll_ready,start_send,poll_flush,poll_close} scope the span, restore the context and pass the inner result through for every inner result (Pending / Ready(Some); Ready(Ok) / Ready(Err) / Pending); the span finishes exactly "
             "at end of stream / completed close, with that call's local spans handed over before a root's commit; no-op spans do nothing.",
        note="One call per harness on hand-written Stream/Sink probes. " + _COLL + _TB),
    "C15": dict(
        text="For a corpus of annotated functions (early return; `?` with &mut log and name=; generic method with lifetime and short_name; properties; "
             "async+enter_on_poll) and hand-written twins: equal return value / Poll sequence / side-effect log for all argument values, nothing "
             "recorded without a local parent; span name (default path, name=, short_name; ::{{closure}} for async + enter_on_poll) and one span per "
             "call / per poll for the sync and enter_on_poll shapes, observed through recording stubs of the two entry points.",
        note="The proc-macro itself is not executed by the engine: only its expansions on the corpus, as compiled. Functions outside the corpus are not covered. "
             "NOT decided: properties and parent of the span recorded under a local parent (a traced call on the thread's span stack ran out of memory at 30 GB); "
             "the plain `async fn` shape (in_span inside the async state machine: out of memory / symbolic execution does not finish). " + _TB),
    "C16": dict(
        text="Built without `enable`: every public entry point returns the no-op value, no property closure runs, no context exists, no command ring is "
             "created. With `enable`: roots before a reporter, children of no-ops, unsampled scopes and operations without a scope hand nothing over "
             "and never call a property closure; every closure-taking public entry point (Span and LocalSpan routes) called once on a root created before a reporter, Span::noop(), their children, and with no local parent: no closure call, no context, nothing handed over.",
        note="'no thread' is not modelled (set_reporter / flush are never executed). " + _TB),
    "C17": dict(
        text="push_child_spans hands over one SharedLocalSpans per parent with the same Arc, under that parent's issued token; an empty set pushes nothing; "
             "a collector scope hands its spans back only to its own handle.",
        note="Sender side only; that N parents receive field-identical subtrees and to_span_records equality are collector/amend behaviour: not decided. " + _COLL + _TB),
    "C18": dict(
        text="Recorded instants are exactly the clock readings at start/finish, so children lie within parents, siblings do not overlap and events lie "
             "within the open span (all clock steps 0..255 per reading); Span::drop stamps the end instant; elapsed() = now - begin (< 2^31 ns), None for no-op.",
        note="Model clock; the anchor conversion to unix nanoseconds, the float cycle scaling and the wall-clock window are not decided. " + _COLL + _TB),
    "C20": dict(
        text="The real try_report loop, for every vector of per-span encoded sizes in 1..=9000 (batches of 2, 3, 5, 7, 8 spans; 4 and 6 in the thorough tier): every datagram < 8000 "
             "bytes, every span that fits alone is sent exactly once in order, oversize spans are skipped without affecting neighbours, the loop terminates "
             "(unwinding assertion).",
        note="convert / serialize / UdpSocket::send_to are oracle stubs; assumption: the real encoder's length is additive in the spans. "
             "Counterexamples of this harness cannot be replayed natively (the oracles are Kani stubs); they are confirmed by a second CBMC run with a trace. " + _TB),
}
