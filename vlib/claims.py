"""Texts for MANIFEST.json."""
SOURCE_COMMITS = []  # no hook commits: the overlay is a copy; "fix:" commits are listed in known_findings.json
NOTES = ("All checks are bounded model checking with Kani/CBMC of the real fastrace source compiled in a scratch overlay "
         "regenerated from /repo's working tree on every run; exit 2 = inconclusive (never a pass, never a violation).")

_PENDING = "harnesses for this property are not built yet (work in progress); see DESIGN.md §5"
NOT_APPLICABLE = {
    "C03": "entirely about which report() call records arrive in across collector cycles; handle_commands is beyond the bounded model checker's reach (DESIGN.md §1, §6)",
    "C08": "collector state after cycles (HashMap-based handle_commands): beyond the bounded model checker's reach (DESIGN.md §1, §6)",
}
for _p in ["C05", "C06", "C07", "C10", "C11", "C12", "C13", "C14", "C15", "C16", "C17", "C18", "C19", "C20"]:
    NOT_APPLICABLE[_p] = _PENDING

_QNOTE = ("Decides only the queue link (util/spsc.rs) and, where listed, the sender link (which commands an API call pushes). "
          "NOT decided: anything the collector does with a received command (handle_commands, reporting, timing, flush()). "
          "Interleaving granularity: whole try_recv calls between producer pushes, and arbitrary ring-level producer behaviour between the two ring "
          "accesses of try_recv; the ring itself (rtrb) is a trusted linearizable model; histories longer than one operation follow by an induction argument on paper.")
CLAIMS = {
    "C01": dict(
        text="Bounded model checking of the real Sender/Receiver code at T=u8: from every valid channel state one send / force_send / thread exit / try_recv "
             "neither loses, duplicates nor reorders an accepted command, also when the producer pushes and exits between try_recv's pop and is_abandoned.",
        note=_QNOTE),
    "C04": dict(
        text="Bounded model checking: force-sent DropCollect/CommitCollect stay in order and are never dropped on a full ring (one-step induction on the queue), "
             "also across thread exit; cancel() pushes DropCollect only for roots (sender link).",
        note=_QNOTE),
    "C09": dict(
        text="Bounded model checking: a send on a full ring drops only itself; force-sent signals are neither dropped nor reordered; local span limits skip only the excess spans.",
        note=_QNOTE),
    "C02": dict(
        text="For every generator state the next two span ids are prefix<<32|counter+1,+2 (distinct, non-zero unless prefix=0 and the counter wraps); "
             "parent linking at recording time decided on SpanQueue/SpanLine/issue_collect_token for all id values within small shapes.",
        note="Bounded: one step from an arbitrary state (induction over calls is on paper). Collector-side amend/fan-out is NOT decided. "
             "Trusted: Kani/CBMC translation, thread_local model, model clock."),
}
