"""Texts for MANIFEST.json."""
SOURCE_COMMITS = []
NOTES = ("All checks are bounded model checking with Kani/CBMC of the real fastrace source compiled in a scratch overlay "
         "regenerated from /repo's working tree on every run; exit 2 = inconclusive (never a pass, never a violation).")

_PENDING = "harnesses for this property are not built yet (work in progress); see DESIGN.md §5"
NOT_APPLICABLE = {
    "C03": "entirely about which report() call records arrive in across collector cycles; handle_commands is beyond the bounded model checker's reach (DESIGN.md §1, §6)",
    "C08": "collector state after cycles (HashMap-based handle_commands): beyond the bounded model checker's reach (DESIGN.md §1, §6)",
}
for _p in ["C01", "C04", "C05", "C06", "C07", "C09", "C10", "C11", "C12", "C13", "C14", "C15", "C16", "C17", "C18", "C19", "C20"]:
    NOT_APPLICABLE[_p] = _PENDING

CLAIMS = {
    "C02": dict(
        text="For every generator state the next two span ids are prefix<<32|counter+1,+2 (distinct, non-zero unless prefix=0 and the counter wraps); "
             "parent linking at recording time decided on SpanQueue/SpanLine/issue_collect_token for all id values within small shapes.",
        note="Bounded: one step from an arbitrary state (induction over calls is on paper). Collector-side amend/fan-out is NOT decided. "
             "Trusted: Kani/CBMC translation, thread_local model, model clock."),
}
