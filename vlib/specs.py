"""Harness registry: which harness serves which property, at which tier, under which bound."""

MODELS = {
    "tls": "model: std thread_local! -> overlay/support/verif_tls.rs (3 virtual threads; lazy init; try_with fails after destroy)",
    "ring": "model: rtrb 0.3 -> overlay/models/rtrb (linearizable SPSC ring, <=4 slots, yield hook at pop/is_abandoned, observe-and-discard push hook)",
    "clock": "model: fastant -> overlay/models/fastant (non-decreasing clock, arbitrary u8 step per reading; as_unix_nanos affine slope 1)",
    "rand": "model: rand::random -> kani::any()",
    "mutex": "model: parking_lot::Mutex -> flag + UnsafeCell; re-lock = assertion failure",
    "fmt": "stub: alloc::fmt::format -> String::with_capacity + write_fmt (identical output)",
    "memchr": "stub: core::slice::memchr::memchr -> naive loop (identical result)",
    "lemma-queue": "composition lemma queue-induction (on paper): the empty channel satisfies the acceptance-order invariant and each operation preserves it, so the one-step verdicts extend to histories of any length",
    "contract-ewp": "contract stub for Span::enter_with_parent in the add_event/add_properties harnesses (child = Span::new(parent's issued token, name, None)); the real function is decided separately by sp_enter_with_parents_links and sp_from_span_fields",
    "lemma-stack": "composition lemma stack-top-locality (on paper): every LocalSpanStack operation touches only the top scope, so frames verified at depth <= 2 extend to any depth",
    "oracle-jaeger": "stubs for JaegerReporter::convert (records the sub-range it was given), JaegerReporter::serialize (buffer of length 60 + sum of symbolic per-span sizes, clamped to 8191) and UdpSocket::send_to (logs length and range); assumption: the real encoder's length is additive in the spans",
    "hashmap-empty": "stub: std::hash::RandomState::new -> zeroed keys (HashMap::new only; nothing is ever inserted: sets without events/properties)",
    "stub-names": "recording stubs for LocalSpan::enter_with_local_parent and Span::enter_with_local_parent in twin_names_*: they record the name argument and return the no-op value (the span stack is not involved)",
    "kani": "Kani 0.68 MIR->goto translation, CBMC 6.11 symbolic execution, CaDiCaL; dev profile (debug assertions and overflow checks on)",
}

HARNESSES = []


def H(pkg, mod, name, props, tier="quick", unwind=None, flags=(), cap_s=900, mem_gb=12, alone=False,
      sym="", bound="", termination=False, models=("kani",), oracle_stubs=False):
    if pkg in ("harness-crate", "harness-disabled"):
        path = f"{mod}::{name}" if mod else name
    else:
        path = f"{mod}::verif_harness::{name}" if mod else f"verif_harness::{name}"
    tiers = tier if isinstance(tier, dict) else {p: tier for p in props}
    HARNESSES.append(dict(pkg=pkg, mod=mod, name=name, path=path, props=tuple(props), tiers=tiers,
                          unwind=unwind, flags=list(flags), cap_s=cap_s, mem_gb=mem_gb, alone=alone,
                          sym=sym, bound=bound, termination=termination, models=tuple(models),
                          oracle_stubs=oracle_stubs))


def harnesses_for(prop, tier):
    out = []
    for h in HARNESSES:
        if prop in h["props"] and (h["tiers"][prop] == "quick" or tier == "thorough"):
            out.append(h)
    return out


NOCHK = ["--no-memory-safety-checks", "--no-assertion-reach-checks"]

# ---------------------------------------------------------------- C02
H("fastrace", "collector::id", "next_id_step", ["C02"],
  sym="generator state (prefix:u32, counter:u32)", bound="one step from every generator state (2^64 states), two successive ids",
  models=("kani", "tls"))

# ---------------------------------------------------------------- queue link (C01, C04, C09)
QB = ("T=u8; one operation from an arbitrary valid channel state (ring capacity 1..=2, occupancy 0..=cap, overflow list 0..=2 entries (0..=1 before force_send)); "
      "sender operations with the consumer interleaved (0 or 1 whole try_recv) before every producer push; try_recv (1 call and 3 consecutive calls) against the most general producer (0..=2 pushes and optional death interleaved before pop and before is_abandoned; histories of any length follow by "
      "induction on the acceptance-order invariant (on paper)")
QM = ("kani", "ring", "lemma-queue")
_shapes = [(c, p) for c in (1, 2) for p in (0, 1, 2)]
for c, p in _shapes:
    if p < 2:
      H("fastrace", "util::spsc", f"q_step_force_send_c{c}p{p}", ["C01", "C04", "C09"],
        sym=f"shape: capacity {c}, overflow list {p}; symbolic: ring occupancy 0..={c}, consumer yield decision before every push", bound=QB, models=QM)
    H("fastrace", "util::spsc", f"q_step_send_c{c}p{p}", ["C01", "C04", "C09"],
      sym=f"shape: capacity {c}, overflow list {p}; symbolic: ring occupancy 0..={c}, consumer yield decision before every push", bound=QB, models=QM)
    if p > 0:
        H("fastrace", "util::spsc", f"q_step_exit_c{c}p{p}", ["C01", "C04", "C09"],
          sym=f"shape: capacity {c}, overflow list {p}; symbolic: ring occupancy, consumer yield decision before every push of Sender::drop", bound=QB, models=QM)
H("fastrace", "util::spsc", "q_try_recv_any_producer", ["C01"],
  sym="capacity 1..=3, occupancy 0..=cap, most general producer: 0..=2 pushes and optional death before pop and before is_abandoned", bound=QB, models=QM)
H("fastrace", "util::spsc", "q_try_recv_seq3_any_producer", ["C01"],
  sym="capacity 1..=3, occupancy, most general producer interleaved at the 6 ring accesses of 3 consecutive try_recv calls", bound=QB, models=QM)
for n, props, sym in [
    ("q_empty_vs_closed", ["C01"], "none (concrete scenario)"),
    ("q_cancel_then_finish_on_full_ring_c1", ["C04", "C09"], "none: concrete scenario at capacity 1"),
    ("q_cancel_then_finish_on_full_ring_c2", ["C04", "C09"], "none: concrete scenario at capacity 2"),
    ("q_full_send_drops_only_itself", ["C09"], "capacity 1..=3"),
]:
    H("fastrace", "util::spsc", n, props, sym=sym, bound=QB, models=QM)

# ---------------------------------------------------------------- SpanQueue (C02, C06, C09, C10, C18)
SQM = ("kani", "tls", "clock")
H("fastrace", "local::span_queue", "sq_tree_links_and_times", ["C02", "C10", "C18"],
  sym="id generator state (2^64), clock start, every clock step (u8 each)", bound="fixed tree shape a(b,c(d)),e: 5 spans, depth 3", models=SQM)
H("fastrace", "local::span_queue", "sq_step_start_from_any_state", ["C02", "C10"],
  sym="two recorded spans with arbitrary ids/parents/instants, arbitrary next_parent_id, generator state, clock", bound="one start_span from an arbitrary queue state", models=SQM)
H("fastrace", "local::span_queue", "sq_step_finish_from_any_state", ["C10", "C18"],
  sym="two recorded spans with arbitrary ids/parents/instants, which one is finished, clock", bound="one finish_span from an arbitrary queue state satisfying its precondition", models=SQM)
H("fastrace", "local::span_queue", "sq_attach_under_innermost", ["C06", "C18"],
  sym="id generator state, clock", bound="fixed sequence: event / properties at depth 0,1,2 and after a child finished; 6 records", models=SQM)
H("fastrace", "local::span_queue", "sq_attach_after_child_finished", ["C06"],
  sym="id generator state, clock", bound="fixed sequence: child's own property, child finishes, a property for the parent with nothing recorded in between; 4 records", models=SQM, mem_gb=24, cap_s=1200)
H("fastrace", "local::span_queue", "sq_step_add_properties_after_foreign_properties", ["C06"],
  sym="id and target of the existing Properties record, the current local parent (any ids, different targets)", bound="one add_properties from a queue built directly with one Properties record of another target", models=SQM, mem_gb=24, cap_s=1200)
H("fastrace", "local::span_queue", "sq_with_properties_hits_handle", ["C06"], tier="thorough", mem_gb=20,
  sym="which of the two open spans the handle denotes", bound="two open spans, one with_properties call on a symbolic choice of them", models=SQM)
for _c in (1, 2):
    H("fastrace", "local::span_queue", f"sq_capacity_limit_{_c}", ["C09"],
      sym="id generator state, clock", bound=f"capacity {_c} (the code compares only len against the stored capacity)", models=SQM)

# ---------------------------------------------------------------- sender link (span.rs)
SPM = ("kani", "tls", "ring", "clock", "rand")
SPB = "one API call on a span built directly from its private fields; tokens of 1..2 items; ring model in observe-and-discard mode, full / not full symbolic"
for n, props, sym in [
    ("sp_drop_root_pushes_submit_then_commit", ["C01", "C09", "C18"], "token item (trace/parent/collect ids, flags), span id, begin instant, collect id, clock, ring full or not"),
    ("sp_drop_child_pushes_one_submit", ["C01", "C05"], "1..2 token items with symbolic ids and flags, span id"),
    ("sp_drop_unsampled_pushes_no_spans", ["C05", "C16"], "1..2 unsampled token items, root or child"),
    ("sp_cancel_only_roots", ["C04", "C09"], "token item, collect id, root or child, ring full or not"),
    ("sp_unsampled_add_event_pushes_nothing", ["C05", "C16"], "unsampled token item"),
    ("sp_unsampled_add_properties_pushes_nothing", ["C05", "C16"], "unsampled token item"),
    ("sp_add_event_shape", ["C06", "C18"], "token item, span id, clock"),
    ("sp_add_properties_shape", ["C06"], "token item, span id"),
    ("sp_with_properties_appends", ["C06"], "token item"),
    ("sp_from_span_fields", ["C02", "C11"], "1..2 token items with symbolic ids and flags, span id"),
    ("sp_enter_with_parents_links", ["C02"], "two parents' token items and ids, one no-op parent in between"),
    ("sp_noop_parents", ["C11", "C16"], "none"),
    ("sp_root_creation", ["C05", "C11", "C16"], "context (trace id, span id, sampled), reporter installed or not, next collect id"),
    ("sp_push_child_spans_shape", ["C17"], "two parents' token items and ids, raw span id"),
    ("sp_elapsed", ["C18"], "begin instant, clock"),
]:
    heavy = n in ("sp_enter_with_parents_links",)
    H("fastrace", "span", n, props, sym=sym, bound=SPB, mem_gb=24 if heavy else 12, cap_s=1800 if heavy else 900,
      tier="thorough" if heavy else "quick",
      models=SPM + (("contract-ewp",) if n in ("sp_add_event_shape", "sp_add_properties_shape", "sp_unsampled_add_event_pushes_nothing", "sp_unsampled_add_properties_pushes_nothing") else ()))

# ---------------------------------------------------------------- SpanLine / LocalSpanStack
SLM = ("kani", "tls", "clock", "rand", "lemma-stack")
for n, props, sym in [
    ("sl_token_innermost", ["C02", "C11", "C10"], "token item (all fields), epoch, generator state"),
    ("sl_token_two_items", ["C02", "C05"], "two token items (all fields), generator state"),
    ("sl_unsampled_inert_1", ["C05", "C16"], "unsampled token item"),
    ("sl_sampled_records", ["C06", "C16"], "sampled token item, generator state"),
    ("sl_unsampled_inert_2", ["C05"], "two token items, both sampling flags"),
    ("sl_stale_handles_ignored", ["C10"], "two distinct epochs"),
    ("sl_full_scope_still_finishes", ["C09", "C10", "C02"], "token item, generator state; scope capacity 2 reached"),
    ("sl_collector_scope", ["C10", "C17"], "epoch"),
]:
    H("fastrace", "local::local_span_line", n, props, sym=sym, bound="a SpanLine as a plain value, <= 3 records, tokens of 1..2 items", models=SLM)
for n, props, sym in [
    ("st_no_parent_inert", ["C10", "C16", "C07"], "none"),
    ("st_scope_frame", ["C10", "C05"], "outer and inner token items, inner sampled or not"),
    ("st_scope_frame_traceless", ["C10"], "outer token item, empty-token scope or collector scope"),
    ("st_span_frame", ["C10"], "token item, generator state"),
    ("st_capacity", ["C09", "C07"], "token items"),
    ("st_full_scope_exit_span", ["C09", "C10"], "token item, two span ids, epoch; scope built directly at its span limit"),
]:
    H("fastrace", "local::local_span_stack", n, props, sym=sym, bound="depth <= 2 scopes, <= 1 span per scope, stack capacity 1 or 4", models=SLM,
      mem_gb=30 if n in ("st_span_frame", "st_full_scope_exit_span") else 16,
      tier="thorough" if n in ("st_span_frame", "st_full_scope_exit_span") else "quick", cap_s=1800,
      flags=(NOCHK + ["--no-overflow-checks"]) if n == "st_full_scope_exit_span" else ())

for n, props, sym in [
    ("sp_guard_drop_pushes_local_spans", ["C01", "C10", "C13", "C05"], "token item (sampled or not), span id, clock"),
    ("sp_guard_when_stack_full", ["C07", "C09"], "token item"),
    ("sp_noop_set_local_parent", ["C16", "C10"], "none"),
]:
    H("fastrace", "span", n, props, sym=sym, bound=SPB + "; explicit span stack of capacity 0 or 4", models=SPM, mem_gb=16)
for n, props, sym in [
    ("ls_current_local_parent_empty_token", ["C07", "C11"], "generator state"),
    ("ls_current_local_parent_fields", ["C11", "C10"], "token item (all fields)"),
    ("ls_current_local_parent_two_items", ["C11", "C05"], "two token items (all fields, both flags)"),
    ("ls_other_thread_unaffected", ["C10", "C13"], "token item; two virtual threads"),
    ("ls_closure_reenters_add_properties", ["C07"], "token item"),
    ("ls_closure_reenters_lazy_iterator", ["C07"], "token item"),
    ("ls_tls_teardown_local_api", ["C07", "C16"], "none (span stack destroyed)"),
    ("ls_tls_teardown_span_api", ["C07", "C16"], "none (span stack destroyed)"),
    ("ls_tls_teardown_sender_gone", ["C07"], "token item, collect id"),
]:
    H("fastrace", "local::local_span", n, props, sym=sym, bound="public thread-local entry points on virtual thread 0, one scope, 1..3 calls", models=SPM,
      mem_gb=30 if n == "ls_closure_reenters_with_properties" else 16, tier="thorough" if n == "ls_closure_reenters_with_properties" else "quick", cap_s=1500)

# ---------------------------------------------------------------- codecs (C12)
CM = ("kani", "fmt", "memchr")
H("fastrace", "collector::id", "c12_encode_shape", ["C12"], sym="trace id (128 bits), span id (64), sampled, hex position", bound="all 2^193 contexts", models=CM, unwind=None, cap_s=1500, mem_gb=16)
H("fastrace", "collector::id", "c12_decode_ascii_le4", ["C12"], sym="every ASCII string of length <= 4", bound="input length <= 4", models=CM)
H("fastrace", "collector::id", "c12_decode_flags1", ["C12"], sym="a flags field of 1 arbitrary ASCII byte(s) ('-' included) after 00-a-b- (and the empty field)", bound="8-byte header, 1 symbolic byte(s)", models=CM, cap_s=1200, mem_gb=16)
H("fastrace", "collector::id", "c12_decode_flags2", ["C12"], sym="a flags field of 2 arbitrary ASCII byte(s) ('-' included) after 00-a-b-", bound="9-byte header, 2 symbolic byte(s)", models=CM, cap_s=1200, mem_gb=16)
H("fastrace", "collector::id", "c12_decode_flags3", ["C12"], sym="a flags field of 3 arbitrary ASCII byte(s) ('-' included) after 00-a-b-", bound="10-byte header, 3 symbolic byte(s)", models=CM, cap_s=1200, mem_gb=16)
H("fastrace", "collector::id", "c12_decode_version2", ["C12"], sym="the two bytes of the version field of VW-a-b-01 (any ASCII, '-' included)", bound="9-byte header, 2 symbolic bytes", models=CM, cap_s=1200, mem_gb=16)
H("fastrace", "collector::id", "c12_decode_fields_112", ["C12"], sym="00-H-H-HH with 4 arbitrary ASCII bytes", bound="field lengths 1,1,2", models=CM, cap_s=2400, mem_gb=16, tier="thorough")
H("fastrace", "collector::id", "c12_decode_fields_222", ["C12"], sym="00-HH-HH-HH with 6 arbitrary ASCII bytes", bound="field lengths 2,2,2", models=CM, cap_s=2400, mem_gb=30, tier="thorough")
H("fastrace", "collector::id", "c12_decode_one_corrupted_byte", ["C12"], sym="position 0..23 and replacement byte (any ASCII) in a valid 24-byte header with a 17-digit trace id", bound="one corrupted byte in one fixed valid header", models=CM, cap_s=3000, mem_gb=24, tier="thorough")
H("fastrace", "collector::id", "c12_id_display", ["C12"], sym="all trace ids and span ids, digit position", bound="all values", models=CM)
H("fastrace", "collector::id", "c12_id_fromstr_short", ["C12"], sym="every ASCII string of length <= 3", bound="input length <= 3", models=CM)

# ---------------------------------------------------------------- future adapters (C13)
FUB = "one adapter, <= 2 polls, span built directly, span stack of capacity 4 on virtual thread 0"
for n, props, sym, kw in [
    ("fu_inspan_noop", ["C13", "C16"], "none", {}),
    ("fu_inspan_scope_pending", ["C13", "C10"], "token item, span id", dict(mem_gb=20, cap_s=1500)),
    ("fu_inspan_finish_ready_root", ["C13", "C03"], "token item, span id, collect id", dict(mem_gb=24, cap_s=1800, flags=NOCHK + ["--no-overflow-checks"])),
    ("fu_inspan_drop_unfinished", ["C13"], "token item, span id", {}),
    ("fu_inspan_scope_inside_own_scope", ["C13"], "token item, span id; the same span already is the thread's local parent", dict(mem_gb=20, cap_s=1800)),
    ("fu_enter_on_poll_no_parent", ["C13", "C16"], "none", {}),
]:
    H("fastrace", "future", n, [p for p in props if p != "C03"], sym=sym, bound=FUB, models=SPM, **kw)

# ---------------------------------------------------------------- Stream / Sink adapters (C14)
for n, props, sym, kw in [
    ("fs_stream_item_poll", ["C14"], "span id, token fields, inner stream Pending or Ready(Some)", dict(mem_gb=16, cap_s=1500)),
    ("fs_stream_end_root", ["C14"], "span id, collect id, token fields", dict(mem_gb=16, cap_s=1800, flags=NOCHK + ["--no-overflow-checks"])),
    ("fs_sink_send_calls", ["C14"], "span id, which of poll_ready/start_send/poll_flush, inner result Ready(Ok)/Ready(Err)/Pending", dict(mem_gb=18, cap_s=1800)),
    ("fs_sink_close_root", ["C14"], "span id, close Pending or Ready", dict(mem_gb=16, cap_s=1800, flags=NOCHK + ["--no-overflow-checks"])),
    ("fs_noop", ["C14", "C16"], "none", {}),
]:
    H("fastrace-futures", "", n, props, sym=sym, bound="one adapter, one call, hand-written Stream (<=1 item) / Sink", models=SPM, **kw)

# ---------------------------------------------------------------- #[trace] twins (C15)
for n, sym, kw in [
    ("twin_sync_noparent", "a:u8, b:u8 (shapes: early return; `?` + &mut log + name=)", {}),
    ("twin_generic_method_noparent", "array, index, Option<u8> (shapes: generic method with lifetime + short_name; properties)", {}),
    ("twin_names_sync", "a:u8, b:u8 (names and span counts of the sync shapes; recording stubs for the two entry points)", {}),
    ("twin_names_async_enter_on_poll", "a:u8 (name and one local span per poll for async + enter_on_poll)", {}),
    ("twin_async_enter_on_poll_noparent", "a:u8 (shape: async fn + enter_on_poll)", {}),
]:
    H("harness-crate", "twins", n, ["C15"], sym=sym, bound="5-shape corpus of annotated functions with hand-written twins (4 sync shapes, async + enter_on_poll); all argument values",
      models=SPM + (("stub-names",) if n.startswith("twin_names") else ()), **kw)

# ---------------------------------------------------------------- disabled build (C16)
for n, sym in [
    ("disabled_span_api", "context (trace id, span id, sampled)"),
    ("disabled_local_api", "none"),
    ("disabled_future_api", "none"),
]:
    H("harness-disabled", "disabled", n, ["C16"], sym=sym, bound="every public entry point once, build without the `enable` feature", models=("kani", "ring", "rand"))

# ---------------------------------------------------------------- enabled build, non-recording spans, public API (C16)
for n, sym in [
    ("noop_span_routes_lazy", "how the non-recording span is obtained (root before a reporter is installed, any context / Span::noop())"),
    ("noop_local_parent_child_lazy", "none"),
    ("noop_local_routes_lazy", "none"),
]:
    H("harness-crate", "noop", n, ["C16"], sym=sym, bound="every closure-taking public entry point once on a non-recording span, counting closures", models=SPM, mem_gb=16)

# ---------------------------------------------------------------- Jaeger splitter (C20)
JM = ("kani", "oracle-jaeger")
for n, tier in [(2, "quick"), (3, "quick"), (4, "thorough"), (5, "quick"), (6, "thorough"), (7, "quick"), (8, "quick")]:
    H("fastrace-jaeger", "", f"jg_splitter_n{n}", ["C20"], sym=f"per-span encoded sizes w[0..{n}) each in 1..=9000", bound=f"batch of {n} spans, every size distribution",
      models=JM, termination=True, tier=tier, cap_s=1800, mem_gb=20, oracle_stubs=True)

# ---------------------------------------------------------------- collection / conversion of local span sets (C17, C18, C02)
H("fastrace", "local::local_collector", "lc_collect_stamps_collection_time", ["C17", "C18"],
  sym="clock, three instants, ids, epoch, first span finished or not", bound="a scope built directly with two top-level records (finished-or-open, then open)", models=("kani", "clock"), mem_gb=20, cap_s=1500)
H("fastrace", "collector::global_collector", "gc_to_span_records_finished_then_open", ["C17", "C18", "C02"],
  sym="clock, four instants, ids, trace id, parent id, nested or sibling", bound="LocalSpansInner of two spans without events/properties (the dangling map stays empty)", models=("kani", "clock", "hashmap-empty"), mem_gb=20, cap_s=1500)

COLLECTOR_OUT = "everything downstream of Receiver::try_recv (handle_commands, per-trace maps, amend/mount, Reporter::report, report interval, flush())"

PROPS = {
    "C01": dict(bounds=QB, not_covered=[COLLECTOR_OUT, "exactly-once across collector cycles", "producer and consumer both at ring-operation granularity at the same time"]),
    "C02": dict(bounds="ids: every generator state; linking: fixed 5-span tree + one step from an arbitrary 2-record queue state; tokens of <=2 items",
                not_covered=["the record handed to the reporter (amend_*, fan-out of multi-item tokens in handle_commands)",
                             "distinctness of ids across threads (random 32-bit prefix: probabilistic)",
                             "the zero id (needs prefix=0 and a wrapped counter): assumed away"]),
    "C03": dict(bounds="", not_covered=[COLLECTOR_OUT]),
    "C04": dict(bounds=QB, not_covered=[COLLECTOR_OUT, "that the collector discards a dropped trace and spares traces sharing a multi-parent span",
                                        "cancel() in the default configuration (collector behaviour)"]),
    "C05": dict(bounds="tokens of <=2 items with symbolic ids and flags; one API call per harness", not_covered=[COLLECTOR_OUT, "the CommitCollect(usize::MAX) an unsampled root force-sends is ignored by the collector"]),
    "C06": dict(bounds="fixed attachment sequences with symbolic ids/clock; strings are opaque literals compared by pointer+length", not_covered=[COLLECTOR_OUT, "mount_danglings / amend_* (parking and merging of pseudo-spans)", "string contents"]),
    "C07": dict(bounds="the listed API paths, each 1..3 calls", not_covered=["calls that ship a span while the collector thread runs", "flush()", "reporter callbacks", "stack overflow, allocation failure"]),
    "C08": dict(bounds="", not_covered=[COLLECTOR_OUT]),
    "C09": dict(bounds=QB + "; SpanQueue capacity <= 3, span stack capacity <= 2", not_covered=[COLLECTOR_OUT, "the production capacities 10240/4096 (the code only compares lengths with the stored capacity)"]),
    "C10": dict(bounds="depth <= 2 scopes, <= 5 spans per scope, <= 3 stack operations per harness; deeper nesting by stack-top-locality (on paper)", not_covered=["!Send of guards is a compiler fact", "arbitrary-depth programs (induction on paper)"]),
    "C11": dict(bounds="tokens of 1..2 items, all id values", not_covered=[COLLECTOR_OUT, "the remote child's delivered record"]),
    "C12": dict(bounds="encode: all 2^193 contexts; decode: all ASCII strings up to 4 bytes, every flags field of 0..3 bytes and every 2-byte version field of a short header, and (thorough) field-shaped inputs with fields <= 2 chars / single-byte corruptions of a 24-byte header", not_covered=["decoding of longer fields / the full 55-character string (uniformity of str::split and from_str_radix is std's contract)", "serde"]),
    "C13": dict(bounds="<= 2 polls per harness, one adapter", not_covered=[COLLECTOR_OUT, "more than 2 polls, nesting of adapters"]),
    "C14": dict(bounds="one adapter call per harness (<= 2 calls), every result of the inner stream/sink (Pending / Ready(Some) / Ready(None); Ready(Ok) / Ready(Err) / Pending)", not_covered=[COLLECTOR_OUT]),
    "C15": dict(bounds="a fixed corpus of annotated function shapes, all argument values (u8/bool/Option<u8>)", not_covered=["functions outside the corpus (the proc-macro itself is not executed by the engine)", "drop order of unused by-value arguments"]),
    "C16": dict(bounds="every public entry point once, closures flagged", not_covered=["'no thread' (threads are not modelled)", "set_reporter / flush are never executed"]),
    "C17": dict(bounds="sets of <= 2 local spans, 1..2 parents", not_covered=[COLLECTOR_OUT, "to_span_records vs the collector path end to end"]),
    "C18": dict(bounds="fixed shapes, every clock step 0..255 per reading, clock start < 2^62", not_covered=["wall-clock window", "the float cycle->ns scaling of fastant", "one anchor per collector cycle"]),
    "C19": dict(bounds="one record, symbolic integer fields", not_covered=["wire bytes (thrift_codec, rmp-serde, OTel SDK)", "strings"]),
    "C20": dict(bounds="batches of 2..8 spans (quick: 2, 3, 5, 7, 8; thorough adds 4, 6), every size vector in 1..=9000 per span", not_covered=["additivity of the real encoder's length (oracle assumption)", "send_to errors"]),
}
for _p, _d in PROPS.items():
    _d.setdefault("design_ref", f"DESIGN.md §5 {_p}")
