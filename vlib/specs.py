"""Harness registry: which harness serves which property, at which tier, under which bound."""

MODELS = {
    "tls": "model: std thread_local! -> overlay/support/verif_tls.rs (3 virtual threads; lazy init; try_with fails after destroy)",
    "ring": "model: rtrb 0.3 -> overlay/models/rtrb (linearizable SPSC ring, <=4 slots, yield hook at pop/is_abandoned, observe-and-discard push hook)",
    "clock": "model: fastant -> overlay/models/fastant (non-decreasing clock, arbitrary u8 step per reading; as_unix_nanos affine slope 1)",
    "rand": "model: rand::random -> kani::any()",
    "mutex": "model: parking_lot::Mutex -> flag + UnsafeCell; re-lock = assertion failure",
    "fmt": "stub: alloc::fmt::format -> String::with_capacity + write_fmt (identical output)",
    "memchr": "stub: core::slice::memchr::memchr -> naive loop (identical result)",
    "kani": "Kani 0.68 MIR->goto translation, CBMC 6.11 symbolic execution, CaDiCaL; dev profile (debug assertions and overflow checks on)",
}

HARNESSES = []


def H(pkg, mod, name, props, tier="quick", unwind=None, flags=(), cap_s=900, mem_gb=12, alone=False,
      sym="", bound="", termination=False, models=("kani",)):
    if pkg in ("harness-crate", "harness-disabled"):
        path = f"{mod}::{name}" if mod else name
    else:
        path = f"{mod}::verif_harness::{name}" if mod else f"verif_harness::{name}"
    tiers = tier if isinstance(tier, dict) else {p: tier for p in props}
    HARNESSES.append(dict(pkg=pkg, mod=mod, name=name, path=path, props=tuple(props), tiers=tiers,
                          unwind=unwind, flags=list(flags), cap_s=cap_s, mem_gb=mem_gb, alone=alone,
                          sym=sym, bound=bound, termination=termination, models=tuple(models)))


def harnesses_for(prop, tier):
    out = []
    for h in HARNESSES:
        if prop in h["props"] and (h["tiers"][prop] == "quick" or tier == "thorough"):
            out.append(h)
    return out


NOCHK = ["--no-memory-safety-checks", "--no-assertion-reach-checks"]

# ---------------------------------------------------------------- C02
H("fastrace", "collector::id", "next_id_step", ["C02"],
  sym="generator state (prefix:u32, counter:u32)", bound="one step from every generator state (2^64 states), two successive ids",
  models=("kani", "tls"))

PROPS = {
    "C02": dict(
        design_ref="DESIGN.md §5 C02",
        bounds="ids: every generator state; linking: <=4 queue steps, tokens of <=2 items",
        not_covered=["the record handed to the reporter (collector side: amend_*, fan-out in handle_commands)",
                     "distinctness of ids across threads (random 32-bit prefix: probabilistic)",
                     "the zero id needs prefix=0 and a wrapped counter: assumption, not a finding"],
    ),
}
