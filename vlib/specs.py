"""Harness registry: which harness serves which property, at which tier, under which bound."""

MODELS = {
    "tls": "model: std thread_local! -> overlay/support/verif_tls.rs (3 virtual threads; lazy init; try_with fails after destroy)",
    "ring": "model: rtrb 0.3 -> overlay/models/rtrb (linearizable SPSC ring, <=4 slots, yield hook at pop/is_abandoned, observe-and-discard push hook)",
    "clock": "model: fastant -> overlay/models/fastant (non-decreasing clock, arbitrary u8 step per reading; as_unix_nanos affine slope 1)",
    "rand": "model: rand::random -> kani::any()",
    "mutex": "model: parking_lot::Mutex -> flag + UnsafeCell; re-lock = assertion failure",
    "fmt": "stub: alloc::fmt::format -> String::with_capacity + write_fmt (identical output)",
    "memchr": "stub: core::slice::memchr::memchr -> naive loop (identical result)",
    "lemma-queue": "composition lemma queue-induction (on paper): the empty channel satisfies the acceptance-order invariant and each operation preserves it, so the one-step verdicts extend to histories of any length",
    "kani": "Kani 0.68 MIR->goto translation, CBMC 6.11 symbolic execution, CaDiCaL; dev profile (debug assertions and overflow checks on)",
}

HARNESSES = []


def H(pkg, mod, name, props, tier="quick", unwind=None, flags=(), cap_s=900, mem_gb=12, alone=False,
      sym="", bound="", termination=False, models=("kani",)):
    if pkg in ("harness-crate", "harness-disabled"):
        path = f"{mod}::{name}" if mod else name
    else:
        path = f"{mod}::verif_harness::{name}" if mod else f"verif_harness::{name}"
    tiers = tier if isinstance(tier, dict) else {p: tier for p in props}
    HARNESSES.append(dict(pkg=pkg, mod=mod, name=name, path=path, props=tuple(props), tiers=tiers,
                          unwind=unwind, flags=list(flags), cap_s=cap_s, mem_gb=mem_gb, alone=alone,
                          sym=sym, bound=bound, termination=termination, models=tuple(models)))


def harnesses_for(prop, tier):
    out = []
    for h in HARNESSES:
        if prop in h["props"] and (h["tiers"][prop] == "quick" or tier == "thorough"):
            out.append(h)
    return out


NOCHK = ["--no-memory-safety-checks", "--no-assertion-reach-checks"]

# ---------------------------------------------------------------- C02
H("fastrace", "collector::id", "next_id_step", ["C02"],
  sym="generator state (prefix:u32, counter:u32)", bound="one step from every generator state (2^64 states), two successive ids",
  models=("kani", "tls"))

# ---------------------------------------------------------------- queue link (C01, C04, C09)
QB = ("T=u8; one operation from an arbitrary valid channel state (ring capacity 1..=2, occupancy 0..=cap, overflow list 0..=2 entries (0..=1 before force_send)); "
      "sender operations with the consumer interleaved (0 or 1 whole try_recv) before every producer push; try_recv (1 call and 3 consecutive calls) against the most general producer (0..=2 pushes and optional death interleaved before pop and before is_abandoned; histories of any length follow by "
      "induction on the acceptance-order invariant (on paper)")
QM = ("kani", "ring", "lemma-queue")
_shapes = [(c, p) for c in (1, 2) for p in (0, 1, 2)]
for c, p in _shapes:
    if p < 2:
      H("fastrace", "util::spsc", f"q_step_force_send_c{c}p{p}", ["C01", "C04", "C09"],
        sym=f"shape: capacity {c}, overflow list {p}; symbolic: ring occupancy 0..={c}, consumer yield decision before every push", bound=QB, models=QM)
    H("fastrace", "util::spsc", f"q_step_send_c{c}p{p}", ["C01", "C09"],
      sym=f"shape: capacity {c}, overflow list {p}; symbolic: ring occupancy 0..={c}, consumer yield decision before every push", bound=QB, models=QM)
    if p > 0:
        H("fastrace", "util::spsc", f"q_step_exit_c{c}p{p}", ["C01", "C04", "C09"],
          sym=f"shape: capacity {c}, overflow list {p}; symbolic: ring occupancy, consumer yield decision before every push of Sender::drop", bound=QB, models=QM)
H("fastrace", "util::spsc", "q_try_recv_any_producer", ["C01"],
  sym="capacity 1..=3, occupancy 0..=cap, most general producer: 0..=2 pushes and optional death before pop and before is_abandoned", bound=QB, models=QM)
H("fastrace", "util::spsc", "q_try_recv_seq3_any_producer", ["C01"],
  sym="capacity 1..=3, occupancy, most general producer interleaved at the 6 ring accesses of 3 consecutive try_recv calls", bound=QB, models=QM)
for n, props, sym in [
    ("q_empty_vs_closed", ["C01"], "none (concrete scenario)"),
    ("q_cancel_then_finish_on_full_ring_c1", ["C04", "C09"], "none: concrete scenario at capacity 1"),
    ("q_cancel_then_finish_on_full_ring_c2", ["C04", "C09"], "none: concrete scenario at capacity 2"),
    ("q_full_send_drops_only_itself", ["C09"], "capacity 1..=3"),
]:
    H("fastrace", "util::spsc", n, props, sym=sym, bound=QB, models=QM)

PROPS = {
    "C02": dict(
        design_ref="DESIGN.md §5 C02",
        bounds="ids: every generator state; linking: <=4 queue steps, tokens of <=2 items",
        not_covered=["the record handed to the reporter (collector side: amend_*, fan-out in handle_commands)",
                     "distinctness of ids across threads (random 32-bit prefix: probabilistic)",
                     "the zero id needs prefix=0 and a wrapped counter: assumption, not a finding"],
    ),
}

for _p, _b in [("C01", QB), ("C04", QB), ("C09", QB)]:
    PROPS.setdefault(_p, dict(design_ref=f"DESIGN.md §5 {_p}", bounds=_b, not_covered=[]))
