"""Write /verif/evidence/<id>.json from what this run measured."""
import json
import os

from . import specs, kani

VERIF = os.path.dirname(os.path.dirname(os.path.abspath(__file__)))


def write(prop, tier, seed, P, hs, results, wall, violations, replayed, known_hits=(), inconclusive=(), note=None):
    os.makedirs(os.path.join(VERIF, "evidence"), exist_ok=True)
    obligations = sum(r["checks_total"] + len(r["covers"]) for r in results.values())
    discharged = sum(r["checks_success"] + sum(1 for c in r["covers"] if c["status"] == "SATISFIED")
                     for r in results.values())
    held = [n for n, r in results.items() if r["outcome"] == "held"]
    nontrivial = [n for n, r in results.items()
                  if r["verdict"] is not None and r["covers"] and all(c["status"] == "SATISFIED" for c in r["covers"])]
    funcs = set()
    models = set()
    samples = []
    for h in hs:
        r = results.get(h["name"])
        models.update(h["models"])
        if not r:
            continue
        funcs.update(kani.fastrace_functions(r))
        samples.append({
            "harness": h["path"], "package": h["pkg"], "symbolic": h["sym"], "bound": h["bound"],
            "unwind": h["unwind"], "kani_flags": h["flags"], "outcome": r["outcome"],
            "checks": r["checks_total"], "checks_ok": r["checks_success"],
            "cover_witnesses": [f"{c['desc']}: {c['status']}" for c in r["covers"]],
            "program_steps": r["steps"], "vccs": r["vccs"], "sat_variables": r["sat_variables"],
            "sat_clauses": r["sat_clauses"], "solver_queries": r["solver_queries"],
            "solver_time_s": r["solver_time_s"], "symex_time_s": r["symex_time_s"], "wall_s": r["wall_s"],
            "stubs": r.get("stubs", []),
            "failed_checks": [f"{f['desc']} @ {f['loc']}" for f in r["failed"]][:10],
        })
    trusted = [specs.MODELS[m] for m in sorted(models)]
    cov = {
        "states": max(1, sum(r["steps"] for r in results.values())),
        "transitions": max(1, sum(r["vccs"] for r in results.values())),
        "states_meaning": "sum over harnesses of CBMC 'size of program expression' (SSA steps); transitions = generated verification conditions",
        "traces_validated_against_impl": replayed,
        "samples": samples or [{"note": note or "no harness ran"}],
        "obligations": obligations,
        "discharged": discharged,
        "evaluations": len(results),
        "distinct_nontrivial": len(nontrivial),
        "rule": "one evaluation = one Kani harness (one bounded symbolic-execution + SAT query set over all values of its symbolic variables); "
                "non-trivial = every kani::cover! reachability witness of the harness was SATISFIED (the harness is not vacuous)",
        "harnesses_held": held,
        "functions_encoded": sorted(funcs),
        "bounds": P.get("bounds", ""),
        "solver_time_s": round(sum(r["solver_time_s"] for r in results.values()), 2),
        "symex_time_s": round(sum(r["symex_time_s"] for r in results.values()), 2),
        "solver_queries": sum(r["solver_queries"] for r in results.values()),
        "checker_cmd": "cargo kani (Kani 0.68.0, CBMC 6.11.0, CaDiCaL) on a scratch overlay regenerated from /repo's working tree",
        "trusted_base": trusted,
        "not_covered": P.get("not_covered", []),
        "known_findings_hit": [k["id"] for k in known_hits],
        "inconclusive": [f"{n}: {w}" for n, w in inconclusive],
        "exhaustive": False,
        "explanation": "bounded model checking of the real source: each harness verdict holds for every value of the listed symbolic variables within the listed bound; nothing is claimed outside it",
    }
    if note:
        cov["note"] = note
    ev = {
        "property_id": prop, "tier": tier, "seed": seed, "level": "model_checking",
        "coverage": cov,
        "assumptions": trusted + ["each verdict is bounded: " + P.get("bounds", "")],
        "wall_s": round(wall, 1), "violations": violations,
    }
    with open(os.path.join(VERIF, "evidence", f"{prop}.json"), "w") as f:
        json.dump(ev, f, indent=1)
