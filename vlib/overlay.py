"""Build the verification overlay: a scratch *copy* of /repo's current working tree with purely
additive edits (harness child modules, thread_local model, workspace patch section).

Nothing is written to /repo.  See DESIGN.md §2.
"""
import os
import re
import shutil
import subprocess

VERIF = os.path.dirname(os.path.dirname(os.path.abspath(__file__)))
REPO = os.environ.get("VERIF_REPO", "/repo")
OVERLAY = os.path.join(VERIF, "overlay")
VENDOR = os.path.join(VERIF, ".cache", "vendor")

# crate dir -> files that get a harness child module appended: (relative source file, harness file)
IN_CRATE_HARNESSES = {
    "fastrace": [
        ("src/collector/id.rs", "id.rs"),
        ("src/util/spsc.rs", "spsc.rs"),
        ("src/span.rs", "span.rs"),
        ("src/local/span_queue.rs", "span_queue.rs"),
        ("src/local/local_span_line.rs", "local_span_line.rs"),
        ("src/local/local_span_stack.rs", "local_span_stack.rs"),
        ("src/local/local_span.rs", "local_span.rs"),
        ("src/local/local_collector.rs", "local_collector.rs"),
        ("src/collector/global_collector.rs", "global_collector.rs"),
        ("src/future.rs", "future.rs"),
        ("src/event.rs", "event.rs"),
    ],
    "fastrace-futures": [("src/lib.rs", "futures_lib.rs")],
    "fastrace-jaeger": [("src/lib.rs", "jaeger_lib.rs")],
    "fastrace-datadog": [("src/lib.rs", "datadog_lib.rs")],
    "fastrace-opentelemetry": [("src/lib.rs", "otel_lib.rs")],
}

COPY_CRATES = ["fastrace", "fastrace-macro", "fastrace-futures", "fastrace-jaeger",
               "fastrace-datadog", "fastrace-opentelemetry"]
# workspace members actually built (datadog / otel only when their model deps exist)
MEMBERS = ["fastrace", "fastrace-macro", "fastrace-futures", "fastrace-jaeger",
           "harness-crate", "harness-disabled"]

MODEL_CRATES = ["rtrb", "fastant", "rand", "parking_lot"]


class OverlayError(Exception):
    pass


def _strip_dev_sections(toml_text):
    """Remove [dev-dependencies*], [[bench]], [[example]], [[test]] tables (dev-only; never part of
    the library that is verified)."""
    out, skip = [], False
    for line in toml_text.splitlines():
        m = re.match(r"\s*\[+\s*([^\]]+?)\s*\]+\s*$", line)
        if m:
            name = m.group(1)
            skip = (name.startswith("dev-dependencies") or name.startswith("target.") and "dev-dependencies" in name
                    or name in ("bench", "example", "test"))
        if not skip:
            out.append(line)
    return "\n".join(out) + "\n"


def _append(path, text):
    with open(path, "a") as f:
        f.write(text)


def build(scratch, members=None, extra_members=()):
    """Create the overlay in `scratch` (must not exist).  Returns dict with paths."""
    if not os.path.isdir(os.path.join(VENDOR)) or not os.path.exists(os.path.join(VENDOR, ".ok")):
        r = subprocess.run([os.path.join(VERIF, "setup.sh")], capture_output=True, text=True)
        if r.returncode != 0:
            raise OverlayError("setup.sh failed: " + r.stderr[-2000:])
    os.makedirs(scratch)
    members = list(members or MEMBERS) + list(extra_members)
    for c in COPY_CRATES:
        src = os.path.join(REPO, c)
        if not os.path.isdir(src):
            raise OverlayError(f"crate directory {c} missing in {REPO}")
        shutil.copytree(src, os.path.join(scratch, c),
                        ignore=shutil.ignore_patterns("target", "benches", "examples", "tests"))
        ct = os.path.join(scratch, c, "Cargo.toml")
        txt = _strip_dev_sections(open(ct).read())
        if c != "fastrace" and c != "fastrace-macro":
            if re.search(r"^\[features\]", txt, re.M):
                txt = re.sub(r"^\[features\]\s*$", '[features]\nverif-enable = ["fastrace/enable"]', txt,
                             count=1, flags=re.M)
            else:
                txt += '\n[features]\nverif-enable = ["fastrace/enable"]\n'
        open(ct, "w").write(txt)

    # harness and support sources are copied too (replay edits the copies, never /verif)
    shutil.copytree(os.path.join(OVERLAY, "harness"), os.path.join(scratch, "verif-harness"))
    shutil.copytree(os.path.join(OVERLAY, "support"), os.path.join(scratch, "verif-support"))

    # in-crate harness modules (child modules see their parent's private items)
    for crate, files in IN_CRATE_HARNESSES.items():
        for rel, hfile in files:
            hpath = os.path.join(scratch, "verif-harness", hfile)
            if not os.path.exists(hpath):
                continue
            target = os.path.join(scratch, crate, rel)
            if not os.path.exists(target):
                raise OverlayError(f"anchored file {crate}/{rel} no longer exists")
            feat = 'feature = "enable"' if crate == "fastrace" else 'feature = "verif-enable"'
            _append(target, f'\n#[cfg(all(kani, {feat}))]\n#[path = "{hpath}"]\npub(crate) mod verif_harness;\n')

    # fastrace/src/lib.rs: thread_local model + helper API (before the first `mod` item)
    lib = os.path.join(scratch, "fastrace", "src", "lib.rs")
    src = open(lib).read()
    inject = (
        "#[cfg(kani)]\nextern crate self as fastrace;\n"
        f'#[cfg(kani)]\n#[macro_use]\n#[path = "{scratch}/verif-support/verif_tls.rs"]\npub mod verif_tls;\n'
        f'#[cfg(all(kani, feature = "enable"))]\n#[path = "{scratch}/verif-support/verif_api.rs"]\npub mod verif_api;\n'
    )
    m = re.search(r"^pub mod collector;", src, re.M)
    if not m:
        raise OverlayError("fastrace/src/lib.rs: `pub mod collector;` not found")
    src = src[:m.start()] + inject + src[m.start():]
    open(lib, "w").write(src)

    # harness crates
    for hc in ("harness-crate", "harness-disabled"):
        shutil.copytree(os.path.join(OVERLAY, hc), os.path.join(scratch, hc))

    # workspace manifest
    root = open(os.path.join(REPO, "Cargo.toml")).read()
    mm = re.search(r"members\s*=\s*\[[^\]]*\]", root)
    if not mm:
        raise OverlayError("workspace members list not found in /repo/Cargo.toml")
    root = root[:mm.start()] + "members = [" + ", ".join(f'"{m}"' for m in members) + "]" + root[mm.end():]
    root += "\n[patch.crates-io]\n"
    for mc in MODEL_CRATES:
        root += f'{mc} = {{ path = "{OVERLAY}/models/{mc}" }}\n'
    for extra in sorted(os.listdir(os.path.join(OVERLAY, "models"))):
        if extra not in MODEL_CRATES and os.path.isdir(os.path.join(OVERLAY, "models", extra)):
            if extra.startswith("opt-"):
                continue
            root += f'{extra} = {{ path = "{OVERLAY}/models/{extra}" }}\n'
    root += "\n[profile.dev]\ndebug = false\n"
    open(os.path.join(scratch, "Cargo.toml"), "w").write(root)
    shutil.copy(os.path.join(REPO, "Cargo.lock"), os.path.join(scratch, "Cargo.lock"))
    os.makedirs(os.path.join(scratch, ".cargo"))
    open(os.path.join(scratch, ".cargo", "config.toml"), "w").write(
        "[source.crates-io]\nreplace-with = \"vendored-sources\"\n\n"
        f"[source.vendored-sources]\ndirectory = \"{VENDOR}\"\n\n[net]\noffline = true\n")
    return {"root": scratch}
