"""Run Kani harnesses on the overlay, parse results, replay counterexamples."""
import os
import re
import resource
import shutil
import subprocess
import time

from . import overlay

ENV = dict(os.environ)
ENV["CARGO_NET_OFFLINE"] = "true"
ENV.pop("RUSTUP_TOOLCHAIN", None)
ENV["CARGO_TERM_COLOR"] = "never"

KANI_BASE = ["-Z", "stubbing", "-Z", "unstable-options", "-v"]


def pkg_features(pkg):
    if pkg == "fastrace":
        return ["--features", "enable"]
    if pkg in ("fastrace-futures", "fastrace-jaeger", "fastrace-datadog", "fastrace-opentelemetry"):
        return ["--features", "verif-enable"]
    return []


def codegen(root, pkg, log_path):
    """Compile `pkg` (all harnesses) once into the shared target dir."""
    cmd = ["cargo", "kani", "-p", pkg] + pkg_features(pkg) + KANI_BASE + \
          ["--only-codegen", "--target-dir", os.path.join(root, "tgt-" + pkg)]
    t0 = time.time()
    with open(log_path, "w") as lf:
        r = subprocess.run(cmd, cwd=root, env=ENV, stdout=lf, stderr=subprocess.STDOUT)
    return r.returncode == 0, time.time() - t0


def _limits(mem_gb):
    def f():
        b = int(mem_gb * (1 << 30))
        resource.setrlimit(resource.RLIMIT_AS, (b, b))
        os.setsid()
    return f


def harness_cmd(root, h, extra=()):
    cmd = ["cargo", "kani", "-p", h["pkg"]] + pkg_features(h["pkg"]) + KANI_BASE + \
          ["--target-dir", os.path.join(root, "tgt-" + h["pkg"]),
           "--harness", h["path"], "--exact"]
    if h.get("unwind"):
        cmd += ["--default-unwind", str(h["unwind"])]
    cmd += list(h.get("flags", []))
    cmd += list(extra)
    return cmd


def run_harness(root, h, log_path, extra=()):
    """Run one harness under its time / memory cap.  Returns parsed result dict."""
    cmd = harness_cmd(root, h, extra)
    t0 = time.time()
    timed_out = False
    with open(log_path, "w") as lf:
        p = subprocess.Popen(cmd, cwd=root, env=ENV, stdout=lf, stderr=subprocess.STDOUT,
                             preexec_fn=_limits(h.get("mem_gb", 12)))
        try:
            rc = p.wait(timeout=h.get("cap_s", 600))
        except subprocess.TimeoutExpired:
            timed_out = True
            try:
                os.killpg(p.pid, 9)
            except ProcessLookupError:
                pass
            p.wait()
            rc = -9
    wall = time.time() - t0
    res = parse_log(open(log_path, errors="replace").read())
    res.update({"rc": rc, "wall_s": round(wall, 2), "timed_out": timed_out, "log": log_path,
                "cmd": " ".join(cmd)})
    res["outcome"] = classify(res, h)
    return res


CHECK_RE = re.compile(
    r"^Check (\d+): (.+)\n\s+- Status: (\w+)\n\s+- Description: \"(.*?)\"\n(?:\s+- Location: (.*?)\n)?",
    re.M)


def parse_log(text):
    res = {"checks_total": 0, "checks_success": 0, "failed": [], "covers": [], "undetermined": 0,
           "unreachable": 0}
    for m in CHECK_RE.finditer(text):
        _, name, status, desc, loc = m.groups()
        is_cover = ".cover." in name
        if is_cover:
            res["covers"].append({"name": name, "status": status, "desc": desc, "loc": loc or ""})
            continue
        res["checks_total"] += 1
        if status == "SUCCESS":
            res["checks_success"] += 1
        elif status == "FAILURE":
            res["failed"].append({"name": name, "desc": desc, "loc": loc or ""})
        elif status == "UNDETERMINED":
            res["undetermined"] += 1
        elif status == "UNREACHABLE":
            res["unreachable"] += 1
            res["checks_success"] += 1
    res["verdict"] = None
    m = re.search(r"^VERIFICATION:- (\w+)", text, re.M)
    if m:
        res["verdict"] = m.group(1)
    res["steps"] = sum(int(x) for x in re.findall(r"size of program expression: (\d+) steps", text))
    vcc = re.findall(r"Generated (\d+) VCC\(s\), (\d+) remaining after simplification", text)
    res["vccs"] = sum(int(a) for a, _ in vcc)
    res["vccs_remaining"] = sum(int(b) for _, b in vcc)
    vc = re.findall(r"^(\d+) variables, (\d+) clauses", text, re.M)
    res["sat_variables"] = max([int(a) for a, _ in vc], default=0)
    res["sat_clauses"] = max([int(b) for _, b in vc], default=0)
    res["solver_queries"] = len(re.findall(r"^Solving with", text, re.M))
    res["solver_time_s"] = round(sum(float(x) for x in re.findall(r"Runtime decision procedure: ([\d.e+-]+)s", text)), 3)
    res["symex_time_s"] = round(sum(float(x) for x in re.findall(r"Runtime Symex: ([\d.e+-]+)s", text)), 3)
    res["unwinding_failure"] = any("unwinding assertion" in f["desc"] for f in res["failed"])
    res["cbmc_error"] = bool(re.search(r"Status: ERROR|CBMC failed|error: internal compiler|^error(\[E\d+\])?:|panicked at", text, re.M)) \
        and res["verdict"] is None
    res["stubs"] = re.findall(r"^\s*- Stub: (.*)$", text, re.M)
    res["functions"] = sorted(set(re.findall(r"in function (.+)$", text, re.M)))
    return res


def classify(res, h):
    """held | violated | inconclusive(<reason>)"""
    if res["timed_out"]:
        return "inconclusive:timeout"
    if res["verdict"] is None:
        return "inconclusive:no-verdict" + ("-error" if res.get("cbmc_error") else "")
    covers_bad = [c for c in res["covers"] if c["status"] != "SATISFIED"]
    if res["verdict"] == "SUCCESSFUL":
        if covers_bad:
            return "inconclusive:vacuous(" + ",".join(c["desc"] for c in covers_bad)[:200] + ")"
        if res["checks_total"] == 0:
            return "inconclusive:no-checks"
        return "held"
    # FAILED
    if not res["failed"]:
        return "inconclusive:failed-without-failed-check"
    if res["unwinding_failure"] and not h.get("termination"):
        real = [f for f in res["failed"] if "unwinding assertion" not in f["desc"]]
        if not real:
            return "inconclusive:unwind-bound-too-small"
    return "violated"


def fastrace_functions(res):
    return [f for f in res.get("functions", []) if not f.startswith(("std::", "core::", "alloc::", "kani::"))]
