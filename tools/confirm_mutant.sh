#!/bin/bash
# usage: confirm_mutant.sh <ID> <demo-file-name>   (worktree /tmp/wt-ID with patch applied, out dir /tmp/wt-ID-out)
# Confirms: demo fails WITH the change, passes WITHOUT; the existing suite passes WITH the change.
ID=$1; DEMO=$2
WT=/tmp/wt-$ID; OUT=/tmp/wt-$ID-out
export CARGO_TARGET_DIR=/tmp/wt-$ID-target CARGO_NET_OFFLINE=true RUST_BACKTRACE=0
cd $WT || exit 2
T=$(basename $DEMO .rs)
cp $OUT/$DEMO fastrace/tests/$DEMO
git apply -R --check $OUT/patch.diff 2>/dev/null || git apply $OUT/patch.diff   # make sure the change is applied
cargo test --manifest-path fastrace/Cargo.toml --test $T --offline -- --test-threads=1 > $OUT/confirm_with.log 2>&1; W=$?
git apply -R $OUT/patch.diff
cargo test --manifest-path fastrace/Cargo.toml --test $T --offline -- --test-threads=1 > $OUT/confirm_without.log 2>&1; WO=$?
git apply $OUT/patch.diff
rm -f fastrace/tests/$DEMO
cargo test --workspace --no-fail-fast --offline > $OUT/confirm_suite.log 2>&1; S=$?
echo "$ID demo_with_change_rc=$W demo_without_change_rc=$WO suite_with_change_rc=$S  $(grep -h '^test result' $OUT/confirm_with.log | head -1) | $(grep -h '^test result' $OUT/confirm_without.log | head -1)"
