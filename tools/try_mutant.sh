#!/bin/bash
# usage: tools/try_mutant.sh <patch.diff> <prop> [<prop> ...]   -- applies the patch to /repo, runs the checks, undoes it
set -u
P=$1; shift
cd /repo || exit 2
git diff --quiet || { echo "/repo has local changes"; exit 2; }
git apply "$P" || { echo "patch does not apply"; exit 2; }
trap 'git -C /repo checkout -- . ; git -C /repo clean -fdq -- fastrace/tests 2>/dev/null' EXIT
cd /verif
for p in "$@"; do
  ./run.py $p --tier ${TIER:-quick} --scratch /var/tmp/fv-mut-$p 2>&1 | grep -E "violated|VIOLATION|INCONCLUSIVE|^OK|KNOWN" | head -12
  echo "== $p rc=${PIPESTATUS[0]}"
done
