#!/bin/bash
# concise summary of kani logs
for f in "$@"; do
  echo "== $f"
  grep -E "^VERIFICATION|^Verification Time|size of program expression|^[0-9]+ variables|Maximum resident|out of memory|\*\* [0-9]+ of" "$f" | sort | uniq -c | sort -rn | head -12
  grep -B1 -A3 "Status: FAILURE" "$f" | grep -E "Description|Location" | cut -c1-220 | head -16
  grep -A2 "Status: UNSATISFIABLE\|Status: UNREACHABLE" "$f" | grep Description | head
done
