#!/bin/bash
# round 3 layout: /tmp/w3-ID (patch applied), /tmp/w3-ID-out/{patch.diff,demo.rs}
ID=$1
WT=/tmp/w3-$ID; OUT=/tmp/w3-$ID-out
export CARGO_TARGET_DIR=/tmp/w3-$ID-target CARGO_NET_OFFLINE=true RUST_BACKTRACE=0
cd $WT || exit 2
cp $OUT/demo.rs fastrace/tests/demo.rs
git apply -R --check $OUT/patch.diff 2>/dev/null || git apply $OUT/patch.diff
cargo test --manifest-path fastrace/Cargo.toml --test demo --offline -- --test-threads=1 > $OUT/confirm_with.log 2>&1; W=$?
git apply -R $OUT/patch.diff
cargo test --manifest-path fastrace/Cargo.toml --test demo --offline -- --test-threads=1 > $OUT/confirm_without.log 2>&1; WO=$?
git apply $OUT/patch.diff
rm -f fastrace/tests/demo.rs
cargo test --workspace --no-fail-fast --offline > $OUT/confirm_suite.log 2>&1; S=$?
echo "$ID demo_with_change_rc=$W demo_without_change_rc=$WO suite_with_change_rc=$S  $(grep -h '^test result' $OUT/confirm_with.log | head -1) | $(grep -h '^test result' $OUT/confirm_without.log | head -1)"
