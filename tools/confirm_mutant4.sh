#!/bin/bash
# round 4 layout: /tmp/wt-r4-N holds the agent's worktree (library change applied, demo test untracked).
# usage: confirm_mutant4.sh <N> <crate-dir> <demo-test-name> [extra cargo args]
# Confirms: demo fails WITH the change, passes WITHOUT; the existing suite (demo moved aside) passes WITH the change.
N=$1; CR=$2; T=$3; shift 3
WT=/tmp/wt-r4-$N; OUT=/tmp/wt-r4-$N-out; mkdir -p $OUT
export CARGO_TARGET_DIR=/tmp/wt-r4-$N-target CARGO_NET_OFFLINE=true RUST_BACKTRACE=0
cd $WT || exit 2
git diff > $OUT/patch.diff
cp $CR/tests/$T.rs $OUT/demo.rs; cp SEEDED_NOTES.md $OUT/notes.md
cargo test --manifest-path $CR/Cargo.toml --test $T --offline "$@" -- --test-threads=1 > $OUT/confirm_with.log 2>&1; W=$?
git apply -R $OUT/patch.diff
cargo test --manifest-path $CR/Cargo.toml --test $T --offline "$@" -- --test-threads=1 > $OUT/confirm_without.log 2>&1; WO=$?
git apply $OUT/patch.diff
mv $CR/tests/$T.rs $OUT/$T.rs.aside
cargo test --workspace --no-fail-fast --offline > $OUT/confirm_suite.log 2>&1; S=$?
mv $OUT/$T.rs.aside $CR/tests/$T.rs
echo "r4-$N demo_with_change_rc=$W demo_without_change_rc=$WO suite_with_change_rc=$S  $(grep -h '^test result' $OUT/confirm_with.log | head -1) | $(grep -h '^test result' $OUT/confirm_without.log | head -1) | suite: $(grep -h '^test result' $OUT/confirm_suite.log | awk '{p+=$4; f+=$6} END {print p" passed "f" failed"}')"
