//! Crate-local model of `std::thread_local!` (trusted environment model, DESIGN.md §3).
//!
//! Kani 0.68 ICEs on thread-locals whose type needs `Drop`; this model also makes *threads*
//! expressible in a sequential engine: every key has `MAX_THREADS` slots, `CURRENT` names the
//! virtual thread that "runs" the next call, and `destroy(t)` is thread exit for that key.
//!
//! Contract kept (that of `std::thread::LocalKey`):
//!   * lazy initialisation on first access per thread,
//!   * `try_with` fails once destruction of the slot has begun (and afterwards),
//!   * slots of different threads are disjoint.
#![allow(dead_code, static_mut_refs)]

use std::cell::UnsafeCell;

pub const MAX_THREADS: usize = 3;

/// The virtual thread on which the next API call runs.
pub static mut CURRENT: usize = 0;

pub fn current() -> usize {
    unsafe { CURRENT }
}
pub fn set_current(t: usize) {
    assert!(t < MAX_THREADS);
    unsafe { CURRENT = t }
}

#[derive(Copy, Clone, PartialEq, Eq, Debug)]
pub enum SlotState {
    Uninit,
    Alive,
    Destroyed,
}

#[derive(Debug)]
pub struct VAccessError;

pub struct VKey<T: 'static> {
    slots: UnsafeCell<[Option<T>; MAX_THREADS]>,
    state: UnsafeCell<[SlotState; MAX_THREADS]>,
    init: fn() -> T,
}

// Sequential engine: one real thread.
unsafe impl<T> Sync for VKey<T> {}

impl<T: 'static> VKey<T> {
    pub const fn new(init: fn() -> T) -> Self {
        VKey {
            slots: UnsafeCell::new([const { None }; MAX_THREADS]),
            state: UnsafeCell::new([SlotState::Uninit; MAX_THREADS]),
            init,
        }
    }

    pub fn state_of(&'static self, t: usize) -> SlotState {
        unsafe { (*self.state.get())[t] }
    }

    pub fn try_with<F, R>(&'static self, f: F) -> Result<R, VAccessError>
    where F: FnOnce(&T) -> R {
        let t = current();
        unsafe {
            match (*self.state.get())[t] {
                SlotState::Destroyed => return Err(VAccessError),
                SlotState::Uninit => {
                    let v = (self.init)();
                    (*self.slots.get())[t] = Some(v);
                    (*self.state.get())[t] = SlotState::Alive;
                }
                SlotState::Alive => {}
            }
            match (*self.slots.get())[t].as_ref() {
                Some(v) => Ok(f(v)),
                None => Err(VAccessError),
            }
        }
    }

    pub fn with<F, R>(&'static self, f: F) -> R
    where F: FnOnce(&T) -> R {
        match self.try_with(f) {
            Ok(r) => r,
            Err(_) => panic!(
                "cannot access a Thread Local Storage value during or after destruction"
            ),
        }
    }

    /// Harness: install a value directly for thread `t` (skips the initialiser).
    pub fn install(&'static self, t: usize, v: T) {
        unsafe {
            (*self.slots.get())[t] = Some(v);
            (*self.state.get())[t] = SlotState::Alive;
        }
    }

    /// Harness: peek at thread `t`'s value without initialising it.
    pub fn peek(&'static self, t: usize) -> Option<&'static T> {
        unsafe { (*self.slots.get())[t].as_ref() }
    }

    /// Thread exit for this key: as std does, the slot is marked destroyed *before* the value's
    /// destructor runs, so re-entrant accesses from the destructor see `Err`.
    pub fn destroy(&'static self, t: usize) {
        unsafe {
            (*self.state.get())[t] = SlotState::Destroyed;
            let v = (*self.slots.get())[t].take();
            drop(v);
        }
    }

    /// Harness: mark destroyed without running the destructor (the value is leaked).
    pub fn mark_destroyed(&'static self, t: usize) {
        unsafe {
            (*self.state.get())[t] = SlotState::Destroyed;
            std::mem::forget((*self.slots.get())[t].take());
        }
    }
}

/// Shadows `std::thread_local!` inside this crate (textual macro scope wins over the prelude).
macro_rules! thread_local {
    () => {};
    ($(#[$a:meta])* $v:vis static $n:ident : $t:ty = const { $init:expr } ; $($rest:tt)*) => {
        $(#[$a])* $v static $n: $crate::verif_tls::VKey<$t> =
            $crate::verif_tls::VKey::new({ fn __verif_init() -> $t { $init } __verif_init });
        thread_local!($($rest)*);
    };
    ($(#[$a:meta])* $v:vis static $n:ident : $t:ty = const { $init:expr }) => {
        $(#[$a])* $v static $n: $crate::verif_tls::VKey<$t> =
            $crate::verif_tls::VKey::new({ fn __verif_init() -> $t { $init } __verif_init });
    };
    ($(#[$a:meta])* $v:vis static $n:ident : $t:ty = $init:expr ; $($rest:tt)*) => {
        $(#[$a])* $v static $n: $crate::verif_tls::VKey<$t> =
            $crate::verif_tls::VKey::new({ fn __verif_init() -> $t { $init } __verif_init });
        thread_local!($($rest)*);
    };
    ($(#[$a:meta])* $v:vis static $n:ident : $t:ty = $init:expr) => {
        $(#[$a])* $v static $n: $crate::verif_tls::VKey<$t> =
            $crate::verif_tls::VKey::new({ fn __verif_init() -> $t { $init } __verif_init });
    };
}
