//! Helpers other overlay crates may call (only compiled under `cfg(kani)` with `enable`).
#![allow(dead_code)]
