//! Helpers other overlay crates may call (only compiled under `cfg(kani)` with `enable`).
//! Thin public wrappers around the in-crate harness helpers.
#![allow(dead_code)]
use crate::collector::global_collector::verif_harness as gc;
use crate::collector::id::verif_harness as idgen;
use crate::collector::CollectTokenItem;
use crate::collector::SpanId;
use crate::collector::TraceId;
use crate::local::local_span_stack::verif_harness as stk;
use crate::local::local_span_stack::LocalSpanStack;
use crate::span::verif_harness as sp;
use crate::verif_tls as tls;
use std::cell::RefCell;
use std::rc::Rc;

static mut STACK: Option<Rc<RefCell<LocalSpanStack>>> = None;

/// Virtual thread 0 with an observed command sender, a symbolic id generator and an empty span
/// stack of capacity 4.
#[allow(static_mut_refs)]
pub fn env_thread0() {
    tls::set_current(0);
    gc::install_observed_sender(0);
    idgen::install_symbolic_generator();
    unsafe {
        STACK = Some(stk::install_stack(0, 4));
        fastant::CLOCK = 100;
    }
}

/// A recording span built directly: one sampled token item; a root if `collect_id` is given.
pub fn mk_span(id: u64, trace: u128, parent: u64, collect: usize, root: bool) -> crate::Span {
    let item = CollectTokenItem {
        trace_id: TraceId(trace),
        parent_id: SpanId(parent),
        collect_id: collect,
        is_root: root,
        is_sampled: true,
    };
    sp::mk_span(id, 5, vec![item], if root { Some(collect) } else { None })
}

pub fn pushed() -> usize {
    gc::nlog()
}
/// 0 StartCollect, 1 DropCollect, 2 CommitCollect, 3 SubmitSpans
pub fn pushed_kind(i: usize) -> u8 {
    gc::log(i).kind
}
/// 0 Span, 1 LocalSpansInner, 2 SharedLocalSpans
pub fn pushed_set_kind(i: usize) -> u8 {
    gc::log(i).set_kind
}
pub fn pushed_span_id(i: usize) -> u64 {
    gc::log(i).span_id.0
}
pub fn pushed_token_parent(i: usize) -> Option<u64> {
    gc::log(i).tok0.map(|t| t.parent_id.0)
}
pub fn pushed_nspans(i: usize) -> usize {
    gc::log(i).nspans
}

#[allow(static_mut_refs)]
pub fn depth() -> usize {
    unsafe { STACK.as_ref().map(|s| stk::depth(&s.borrow())).unwrap_or(0) }
}
#[allow(static_mut_refs)]
pub fn local_parent() -> Option<u64> {
    unsafe { STACK.as_ref().and_then(|s| stk::context(&s.borrow()).2).map(|p| p.0) }
}
pub fn set_reporter_ready(v: bool) {
    gc::set_reporter_ready(v);
}

/// Open a sampled local-parent scope on thread 0 whose parent span id is `id` (the scope stays
/// open: the handle is leaked).
#[allow(static_mut_refs)]
pub fn open_scope(id: u64) {
    let item = CollectTokenItem { trace_id: TraceId(1), parent_id: SpanId(id), collect_id: 0, is_root: false, is_sampled: true };
    unsafe {
        let h = STACK.as_ref().unwrap().borrow_mut().register_span_line(Some(vec![item]));
        std::mem::forget(h);
    }
}

/// Number of records in the innermost scope.
#[allow(static_mut_refs)]
pub fn scope_records() -> usize {
    unsafe { STACK.as_ref().and_then(|s| stk::top_records(&s.borrow()).map(|r| r.len())).unwrap_or(0) }
}

/// (name ptr, name len, raw parent id, kind 0 span/1 event/2 properties, property count or MAX, finished)
#[allow(static_mut_refs)]
pub fn scope_record(i: usize) -> (usize, usize, u64, u8, usize, bool) {
    unsafe {
        let st = STACK.as_ref().unwrap().borrow();
        let r = &stk::top_records(&st).unwrap()[i];
        let kind = match r.raw_kind {
            crate::local::raw_span::RawKind::Span => 0,
            crate::local::raw_span::RawKind::Event => 1,
            crate::local::raw_span::RawKind::Properties => 2,
        };
        (
            r.name.as_ptr() as usize,
            r.name.len(),
            r.parent_id.0,
            kind,
            r.properties.as_ref().map(|p| p.len()).unwrap_or(usize::MAX),
            r.end_instant != fastant::Instant::ZERO,
        )
    }
}

/// Name of the i-th record of the innermost scope, as bytes equal to `s`?
#[allow(static_mut_refs)]
pub fn scope_record_name_is(i: usize, s: &str) -> bool {
    unsafe {
        let st = STACK.as_ref().unwrap().borrow();
        let r = &stk::top_records(&st).unwrap()[i];
        let a = r.name.as_bytes();
        let b = s.as_bytes();
        if a.len() != b.len() {
            return false;
        }
        let mut k = 0;
        while k < a.len() {
            if a[k] != b[k] {
                return false;
            }
            k += 1;
        }
        true
    }
}

/// (length, first 3 bytes, last 4 bytes) of the i-th record's name, zero padded; no loops.
#[allow(static_mut_refs)]
pub fn scope_record_name_probe(i: usize) -> (usize, [u8; 3], [u8; 4]) {
    unsafe {
        let st = STACK.as_ref().unwrap().borrow();
        let r = &stk::top_records(&st).unwrap()[i];
        let b = r.name.as_bytes();
        let n = b.len();
        let g = |k: usize| if k < n { b[k] } else { 0 };
        let l = |k: usize| if n >= k { b[n - k] } else { 0 };
        (n, [g(0), g(1), g(2)], [l(4), l(3), l(2), l(1)])
    }
}

/// Virtual thread 0 whose span stack is already destroyed (thread teardown).
pub fn env_thread0_without_stack() {
    tls::set_current(0);
    gc::install_observed_sender(0);
    idgen::install_symbolic_generator();
    stk::destroy_stack(0);
}
