//! Model of `rtrb` 0.3 for bounded model checking (trusted environment model, see DESIGN.md §3).
//!
//! Contract kept: a linearizable single-producer single-consumer ring.
//!   * `push` fails iff the ring is full and then hands the value back,
//!   * `pop` fails iff the ring is empty, values come out in push order,
//!   * `is_abandoned` (consumer side) is true iff the producer has been dropped.
//!
//! Added for verification:
//!   * capacity is `min(requested, MODEL_CAPACITY)`, `MODEL_CAPACITY <= SLOTS`,
//!   * `YIELD_HOOK` is called at the start of `Consumer::pop` and `Consumer::is_abandoned`
//!     (and with tag 2 at the start of `Producer::push`): the harness runs steps of the other
//!     side there, which makes the interleaving at ring-operation granularity a symbolic
//!     variable of the query,
//!   * observe-and-discard mode (`PUSH_HOOK`): `push` hands `*const T` to the hook and forgets
//!     the value (or reports "full" if the hook says so), so a sender-side harness can see what
//!     is pushed and in which order without storing the value.
#![allow(static_mut_refs)]

use std::fmt;

pub const SLOTS: usize = 8;

/// Upper bound applied to every requested capacity (1..=SLOTS).
pub static mut MODEL_CAPACITY: usize = SLOTS;
/// Called with 0 at the start of `Consumer::pop`, 1 at the start of `Consumer::is_abandoned`,
/// 2 at the start of `Producer::push`.
pub static mut YIELD_HOOK: Option<fn(u8)> = None;
/// Observe-and-discard: `hook(ptr) == true` means "accepted" (value forgotten),
/// `false` means "ring full" (value handed back in `PushError::Full`).
pub static mut PUSH_HOOK: Option<fn(*const ()) -> bool> = None;
/// Number of rings ever created (C16: a disabled build creates none).
pub static mut RINGS_CREATED: usize = 0;

pub struct RingBuffer<T> {
    slots: [Option<T>; SLOTS],
    head: usize,
    len: usize,
    capacity: usize,
    producer_alive: bool,
    consumer_alive: bool,
}
type Ring<T> = RingBuffer<T>;

impl<T> fmt::Debug for RingBuffer<T> {
    fn fmt(&self, f: &mut fmt::Formatter<'_>) -> fmt::Result {
        f.write_str("RingBuffer(model)")
    }
}

impl<T> RingBuffer<T> {
    /// rtrb API: the capacity of the queue.
    pub fn capacity(&self) -> usize {
        self.capacity
    }

    #[allow(clippy::new_ret_no_self)]
    pub fn new(capacity: usize) -> (Producer<T>, Consumer<T>) {
        let cap = unsafe {
            RINGS_CREATED += 1;
            if capacity < MODEL_CAPACITY { capacity } else { MODEL_CAPACITY }
        };
        let ring = Box::into_raw(Box::new(RingBuffer {
            slots: [None, None, None, None, None, None, None, None],
            head: 0,
            len: 0,
            capacity: cap,
            producer_alive: true,
            consumer_alive: true,
        }));
        (Producer { ring }, Consumer { ring })
    }
}

pub struct Producer<T> {
    ring: *mut Ring<T>,
}
pub struct Consumer<T> {
    ring: *mut Ring<T>,
}
unsafe impl<T: Send> Send for Producer<T> {}
unsafe impl<T: Send> Send for Consumer<T> {}

impl<T> Producer<T> {
    pub fn push(&mut self, value: T) -> Result<(), PushError<T>> {
        unsafe {
            if let Some(h) = YIELD_HOOK {
                h(2);
            }
            if let Some(h) = PUSH_HOOK {
                return if h(&value as *const T as *const ()) {
                    std::mem::forget(value);
                    Ok(())
                } else {
                    Err(PushError::Full(value))
                };
            }
            let r = &mut *self.ring;
            if r.len >= r.capacity {
                return Err(PushError::Full(value));
            }
            let idx = (r.head + r.len) % SLOTS;
            r.slots[idx] = Some(value);
            r.len += 1;
            Ok(())
        }
    }
    pub fn slots(&self) -> usize {
        unsafe { (*self.ring).capacity - (*self.ring).len }
    }
    /// Model-only: number of queued values.
    pub fn model_len(&self) -> usize {
        unsafe { (*self.ring).len }
    }
    /// Model-only: the i-th oldest queued value.
    pub fn model_peek(&self, i: usize) -> Option<&T> {
        unsafe {
            let r = &*self.ring;
            if i < r.len { r.slots[(r.head + i) % SLOTS].as_ref() } else { None }
        }
    }
    /// Model-only: change the capacity (harness observation: "if the ring had room").
    pub fn model_set_capacity(&mut self, cap: usize) {
        unsafe { (*self.ring).capacity = if cap < SLOTS { cap } else { SLOTS } }
    }
    /// Model-only: discard the oldest queued value without going through the consumer.
    pub fn model_discard_front(&mut self) {
        unsafe {
            let r = &mut *self.ring;
            if r.len > 0 {
                r.slots[r.head] = None;
                r.head = (r.head + 1) % SLOTS;
                r.len -= 1;
            }
        }
    }
    /// Model-only: is the consumer end still alive?
    pub fn model_consumer_alive(&self) -> bool {
        unsafe { (*self.ring).consumer_alive }
    }
    pub fn is_full(&self) -> bool {
        self.slots() == 0
    }
    pub fn is_abandoned(&self) -> bool {
        unsafe { !(*self.ring).consumer_alive }
    }
    /// rtrb API: the ring buffer this producer belongs to.
    pub fn buffer(&self) -> &RingBuffer<T> {
        unsafe { &*self.ring }
    }
}

impl<T> Consumer<T> {
    pub fn pop(&mut self) -> Result<T, PopError> {
        unsafe {
            if let Some(h) = YIELD_HOOK {
                h(0);
            }
            let r = &mut *self.ring;
            if r.len == 0 {
                return Err(PopError::Empty);
            }
            let v = r.slots[r.head].take();
            r.head = (r.head + 1) % SLOTS;
            r.len -= 1;
            match v {
                Some(v) => Ok(v),
                None => unreachable!(),
            }
        }
    }
    pub fn slots(&self) -> usize {
        unsafe { (*self.ring).len }
    }
    pub fn is_empty(&self) -> bool {
        self.slots() == 0
    }
    /// rtrb API: the ring buffer this consumer belongs to.
    pub fn buffer(&self) -> &RingBuffer<T> {
        unsafe { &*self.ring }
    }
    /// rtrb API: the next value without removing it.
    pub fn peek(&self) -> Result<&T, PeekError> {
        unsafe {
            let r = &*self.ring;
            if r.len == 0 {
                return Err(PeekError::Empty);
            }
            match r.slots[r.head].as_ref() {
                Some(v) => Ok(v),
                None => Err(PeekError::Empty),
            }
        }
    }
    /// Model-only: number of queued values (no yield).
    pub fn model_len(&self) -> usize {
        unsafe { (*self.ring).len }
    }
    /// Model-only: the i-th oldest queued value (no yield).
    pub fn model_peek(&self, i: usize) -> Option<&T> {
        unsafe {
            let r = &*self.ring;
            if i < r.len { r.slots[(r.head + i) % SLOTS].as_ref() } else { None }
        }
    }
    /// Model-only: is the producer end still alive (no yield)?
    pub fn model_producer_alive(&self) -> bool {
        unsafe { (*self.ring).producer_alive }
    }
    pub fn is_abandoned(&self) -> bool {
        unsafe {
            if let Some(h) = YIELD_HOOK {
                h(1);
            }
            !(*self.ring).producer_alive
        }
    }
}

// The ring itself is intentionally leaked when both ends are gone (no drop glue to unroll).
impl<T> Drop for Producer<T> {
    fn drop(&mut self) {
        unsafe { (*self.ring).producer_alive = false }
    }
}
impl<T> Drop for Consumer<T> {
    fn drop(&mut self) {
        unsafe { (*self.ring).consumer_alive = false }
    }
}

#[derive(Debug, Copy, Clone, PartialEq, Eq)]
pub enum PopError {
    Empty,
}
impl std::error::Error for PopError {}
impl fmt::Display for PopError {
    fn fmt(&self, f: &mut fmt::Formatter<'_>) -> fmt::Result {
        f.write_str("empty ring buffer")
    }
}

#[derive(Debug, Copy, Clone, PartialEq, Eq)]
pub enum PeekError {
    Empty,
}
impl std::error::Error for PeekError {}
impl fmt::Display for PeekError {
    fn fmt(&self, f: &mut fmt::Formatter<'_>) -> fmt::Result {
        f.write_str("empty ring buffer")
    }
}

#[derive(Copy, Clone, PartialEq, Eq)]
pub enum PushError<T> {
    Full(T),
}
impl<T> std::error::Error for PushError<T> {}
impl<T> fmt::Debug for PushError<T> {
    fn fmt(&self, f: &mut fmt::Formatter<'_>) -> fmt::Result {
        f.write_str("Full(_)")
    }
}
impl<T> fmt::Display for PushError<T> {
    fn fmt(&self, f: &mut fmt::Formatter<'_>) -> fmt::Result {
        f.write_str("full ring buffer")
    }
}
