//! Model of `parking_lot::Mutex` (trusted environment model, DESIGN.md §3).
//! Sequential engine: a second `lock()` while the guard is alive can never succeed, so it is a
//! deadlock on the real mutex; the model reports it as a failed assertion.
use std::cell::{Cell, UnsafeCell};
use std::ops::{Deref, DerefMut};

pub struct Mutex<T> {
    locked: Cell<bool>,
    data: UnsafeCell<T>,
}
unsafe impl<T: Send> Sync for Mutex<T> {}
unsafe impl<T: Send> Send for Mutex<T> {}

pub const fn const_mutex<T>(v: T) -> Mutex<T> {
    Mutex::new(v)
}

impl<T> Mutex<T> {
    pub const fn new(v: T) -> Self {
        Mutex { locked: Cell::new(false), data: UnsafeCell::new(v) }
    }
    pub fn lock(&self) -> MutexGuard<'_, T> {
        assert!(!self.locked.get(), "verif: deadlock: mutex locked twice on the same thread");
        self.locked.set(true);
        MutexGuard { m: self }
    }
    pub fn try_lock(&self) -> Option<MutexGuard<'_, T>> {
        if self.locked.get() {
            None
        } else {
            self.locked.set(true);
            Some(MutexGuard { m: self })
        }
    }
    pub fn is_locked(&self) -> bool {
        self.locked.get()
    }
    pub fn into_inner(self) -> T {
        self.data.into_inner()
    }
    pub fn get_mut(&mut self) -> &mut T {
        self.data.get_mut()
    }
}
impl<T: Default> Default for Mutex<T> {
    fn default() -> Self {
        Mutex::new(T::default())
    }
}

pub struct MutexGuard<'a, T> {
    m: &'a Mutex<T>,
}
impl<T> Deref for MutexGuard<'_, T> {
    type Target = T;
    fn deref(&self) -> &T {
        unsafe { &*self.m.data.get() }
    }
}
impl<T> DerefMut for MutexGuard<'_, T> {
    fn deref_mut(&mut self) -> &mut T {
        unsafe { &mut *self.m.data.get() }
    }
}
impl<T> Drop for MutexGuard<'_, T> {
    fn drop(&mut self) {
        self.m.locked.set(false);
    }
}
