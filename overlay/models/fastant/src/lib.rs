//! Model of `fastant` 0.1 (trusted environment model, DESIGN.md §3).
//!
//! Contract kept: `Instant::now()` is non-decreasing; `as_unix_nanos` is affine in the instant for
//! a fixed anchor (slope 1: one cycle = one nanosecond; the float scaling of the real crate is
//! outside every claim).  Each `now()` advances the model clock by `TICK` if it is non-zero and by
//! an arbitrary `u8` otherwise, so all spacings 0..=255 between two readings are covered.
#![allow(static_mut_refs)]

use std::ops::Sub;
use std::time::Duration;

/// The model clock.  Harnesses may set it to a symbolic start value.
pub static mut CLOCK: u64 = 1;
/// 0 = every reading advances the clock by an arbitrary u8; n>0 = by exactly n.
pub static mut TICK: u64 = 0;
// NOTE: do not add further statics that `now()` writes: with a second written static CBMC 6.11
// resolved a later read of a heap-stored `Option<Vec<_>>` field to an unconstrained value
// (spurious NULL-pointer failures in Vec::extend); see DESIGN.md "engine artefacts".

#[derive(Copy, Clone, PartialEq, Eq, PartialOrd, Ord, Hash)]
pub struct Instant(pub u64);

impl Instant {
    pub const ZERO: Instant = Instant(0);

    #[inline]
    pub fn now() -> Instant {
        unsafe {
            let step: u64 = if TICK != 0 { TICK } else { arbitrary_step() };
            CLOCK = CLOCK.saturating_add(step);
            Instant(CLOCK)
        }
    }

    pub fn duration_since(&self, earlier: Instant) -> Duration {
        self.checked_duration_since(earlier).unwrap_or_default()
    }
    pub fn checked_duration_since(&self, earlier: Instant) -> Option<Duration> {
        self.0.checked_sub(earlier.0).map(Duration::from_nanos)
    }
    pub fn saturating_duration_since(&self, earlier: Instant) -> Duration {
        self.checked_duration_since(earlier).unwrap_or_default()
    }
    #[inline]
    pub fn elapsed(&self) -> Duration {
        Instant::now() - *self
    }
    pub fn as_unix_nanos(&self, anchor: &Anchor) -> u64 {
        if self.0 > anchor.cycle {
            anchor.unix_time_ns + (self.0 - anchor.cycle)
        } else {
            anchor.unix_time_ns - (anchor.cycle - self.0)
        }
    }
}

#[cfg(kani)]
fn arbitrary_step() -> u64 {
    kani::any::<u8>() as u64
}
#[cfg(not(kani))]
fn arbitrary_step() -> u64 {
    1
}

impl Sub<Instant> for Instant {
    type Output = Duration;
    fn sub(self, other: Instant) -> Duration {
        self.duration_since(other)
    }
}

impl std::fmt::Debug for Instant {
    fn fmt(&self, f: &mut std::fmt::Formatter<'_>) -> std::fmt::Result {
        self.0.fmt(f)
    }
}

/// Anchor of the model clock.  `ANCHOR_UNIX` is the wall-clock reading a fresh anchor gets;
/// the cycle is the current model clock (an anchor is taken "now").
pub static mut ANCHOR_UNIX: u64 = 1 << 60;

#[derive(Copy, Clone)]
pub struct Anchor {
    pub unix_time_ns: u64,
    pub cycle: u64,
}
impl Default for Anchor {
    fn default() -> Self {
        Self::new()
    }
}
impl Anchor {
    #[inline]
    pub fn new() -> Anchor {
        unsafe { Anchor { unix_time_ns: ANCHOR_UNIX, cycle: CLOCK } }
    }
}
