//! Model of `rand::random` (trusted environment model): an arbitrary value of the type.
#[cfg(kani)]
pub fn random<T: kani::Arbitrary>() -> T {
    kani::any()
}
#[cfg(not(kani))]
pub fn random<T: Default>() -> T {
    T::default()
}
