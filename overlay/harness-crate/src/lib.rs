//! Public-API harnesses (built with `enable`).
#![allow(dead_code, unused_imports)]
#[cfg(kani)]
mod noop;
#[cfg(kani)]
mod twins;
