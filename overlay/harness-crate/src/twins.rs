//! C15: `#[trace]` twins.  Each annotated function of the corpus has a hand-written plain twin;
//! for ALL argument values the two return the same value / Poll sequence and leave the same
//! side-effect log; without a local parent nothing is recorded.
use fastrace::prelude::*;
use fastrace::verif_api as api;
use std::future::Future;
use std::pin::Pin;
use std::task::{Context, Poll, Waker};

#[derive(Default, PartialEq, Eq, Clone, Copy)]
pub struct Log {
    pub n: usize,
    pub e: [u8; 4],
}
impl Log {
    fn push(&mut self, v: u8) {
        if self.n < 4 {
            self.e[self.n] = v;
        }
        self.n += 1;
    }
}

// ---- shape 1: sync, early return, wrapping arithmetic
#[trace]
fn s1(a: u8, b: u8) -> u8 {
    if a > 10 {
        return b;
    }
    a.wrapping_add(b)
}
fn s1_twin(a: u8, b: u8) -> u8 {
    if a > 10 {
        return b;
    }
    a.wrapping_add(b)
}

// ---- shape 2: `?` on Result, &mut argument with an append-only log
fn step(log: &mut Log, a: u8) -> Result<u8, u8> {
    log.push(a);
    if a % 3 == 0 { Err(a) } else { Ok(a / 2) }
}
#[trace(name = "s2-configured")]
fn s2(log: &mut Log, a: u8, b: u8) -> Result<u8, u8> {
    let x = step(log, a)?;
    let y = step(log, b)?;
    log.push(x ^ y);
    Ok(x.wrapping_mul(y))
}
fn s2_twin(log: &mut Log, a: u8, b: u8) -> Result<u8, u8> {
    let x = step(log, a)?;
    let y = step(log, b)?;
    log.push(x ^ y);
    Ok(x.wrapping_mul(y))
}

// ---- shape 3: generic + lifetime + method in an impl, short_name
struct Holder<'a> {
    v: &'a [u8; 2],
}
impl<'a> Holder<'a> {
    #[trace(short_name = true)]
    fn pick<T: Copy + Into<usize>>(&self, i: T) -> Option<&'a u8> {
        self.v.get(i.into())
    }
    fn pick_twin<T: Copy + Into<usize>>(&self, i: T) -> Option<&'a u8> {
        self.v.get(i.into())
    }
}

// ---- shape 4: properties with a format string over an argument
#[trace(short_name = true, properties = { "k1": "v1", "esc": "{{x}}" })]
fn s4(a: Option<u8>) -> u8 {
    a.unwrap_or(9).rotate_left(1)
}
fn s4_twin(a: Option<u8>) -> u8 {
    a.unwrap_or(9).rotate_left(1)
}

// ---- async helpers
pub struct Pend {
    polled: bool,
}
impl Future for Pend {
    type Output = ();
    fn poll(mut self: Pin<&mut Self>, _: &mut Context<'_>) -> Poll<()> {
        if self.polled {
            Poll::Ready(())
        } else {
            self.polled = true;
            Poll::Pending
        }
    }
}

// ---- shape 5: async fn awaiting a future that is Pending once
#[trace]
async fn a5(a: u8) -> u8 {
    Pend { polled: false }.await;
    a.wrapping_mul(3)
}
async fn a5_twin(a: u8) -> u8 {
    Pend { polled: false }.await;
    a.wrapping_mul(3)
}

// ---- shape 6: async fn with enter_on_poll
#[trace(enter_on_poll = true)]
async fn a6(a: u8) -> Result<u8, ()> {
    Pend { polled: false }.await;
    if a == 0 { Err(()) } else { Ok(a - 1) }
}
async fn a6_twin(a: u8) -> Result<u8, ()> {
    Pend { polled: false }.await;
    if a == 0 { Err(()) } else { Ok(a - 1) }
}

/// Poll twice (no loop): the corpus futures are Pending once, then Ready.
fn poll3<F: Future>(f: F) -> ([u8; 3], Option<F::Output>) {
    let mut f = std::pin::pin!(f);
    let mut cx = Context::from_waker(Waker::noop());
    let mut seq = [0u8; 3];
    match f.as_mut().poll(&mut cx) {
        Poll::Pending => seq[0] = 1,
        Poll::Ready(v) => {
            seq[0] = 2;
            return (seq, Some(v));
        }
    }
    match f.as_mut().poll(&mut cx) {
        Poll::Pending => seq[1] = 1,
        Poll::Ready(v) => {
            seq[1] = 2;
            return (seq, Some(v));
        }
    }
    (seq, None)
}

fn nothing_recorded() {
    assert!(api::pushed() == 0, "a traced call without a local parent handed something to the collector");
    assert!(api::depth() == 0, "a traced call without a local parent left a scope open");
}

#[kani::proof]
#[kani::unwind(6)]
fn twin_sync_noparent() {
    api::env_thread0();
    let a: u8 = kani::any();
    let b: u8 = kani::any();
    assert!(s1(a, b) == s1_twin(a, b));
    let mut l1 = Log::default();
    let mut l2 = Log::default();
    assert!(s2(&mut l1, a, b) == s2_twin(&mut l2, a, b), "traced function returns / propagates errors differently");
    assert!(l1 == l2, "traced function performs different side effects");
    nothing_recorded();
    kani::cover!(a > 10);
    kani::cover!(a % 3 == 0);
}

#[kani::proof]
#[kani::unwind(4)]
fn twin_generic_method_noparent() {
    api::env_thread0();
    let arr: [u8; 2] = kani::any();
    let h = Holder { v: &arr };
    let i: u8 = kani::any();
    let r1 = h.pick(i).map(|p| p as *const u8);
    let r2 = h.pick_twin(i).map(|p| p as *const u8);
    assert!(r1 == r2, "traced method returns a different reference");
    let o: Option<u8> = kani::any();
    assert!(s4(o) == s4_twin(o));
    nothing_recorded();
    kani::cover!(i < 2);
    kani::cover!(i >= 2);
}

// NOT REGISTERED: the plain async shape (in_span inside the async state machine) runs out of
// memory at 30 GB (3 M steps, 20 M variables) or does not finish symbolic execution.
#[kani::proof]
#[kani::unwind(5)]
fn twin_async_noparent() {
    // "no local parent" in its statically decidable form: the thread's span stack is gone, so
    // Span::enter_with_local_parent is a no-op on every path (with an empty-but-alive stack the
    // engine cannot fold the heap read and explores the whole recording path: out of memory)
    api::env_thread0_without_stack();
    let a: u8 = kani::any();
    let (s1, o1) = poll3(a5(a));
    let (s2, o2) = poll3(a5_twin(a));
    assert!(s1 == s2 && o1 == o2, "traced async fn has a different Poll sequence or output");
    assert!(s1[0] == 1 && s1[1] == 2, "expected one Pending poll, then Ready");
    nothing_recorded();
    kani::cover!(a > 100);
}

#[kani::proof]
#[kani::unwind(5)]
fn twin_async_enter_on_poll_noparent() {
    api::env_thread0();
    let a: u8 = kani::any();
    let (s1, o1) = poll3(a6(a));
    let (s2, o2) = poll3(a6_twin(a));
    assert!(s1 == s2 && o1 == o2, "traced async fn (enter_on_poll) has a different Poll sequence or output");
    nothing_recorded();
    kani::cover!(a == 0);
}

// With a local parent: exactly one span per call, named as configured, under the caller's parent.
// NOT REGISTERED (vlib/specs.py): out of memory at 30 GB (DESIGN.md §1); kept for a stronger engine.
#[kani::proof]
#[kani::unwind(3)]
fn twin_sync_parent_default_name() {
    api::env_thread0();
    let pid: u64 = kani::any();
    api::open_scope(pid);
    let a: u8 = kani::any();
    let b: u8 = kani::any();
    assert!(s1(a, b) == s1_twin(a, b));
    assert!(api::scope_records() == 1, "a traced call under a local parent must record exactly one span");
    let (_, _, raw_parent, kind, nprops, finished) = api::scope_record(0);
    assert!(kind == 0 && raw_parent == 0 && finished, "the span is not a finished child of the caller's local parent");
    assert!(nprops == usize::MAX);
    // "harness_crate::twins::s1" (24 bytes), checked without a loop
    assert!(api::scope_record_name_probe(0) == (24, *b"har", *b"::s1"), "default span name is not the function's full path");
    assert!(api::local_parent() == Some(pid), "the caller's local parent was not restored");
    kani::cover!(true);
}

#[kani::proof]
#[kani::unwind(3)]
fn twin_sync_parent_configured() {
    api::env_thread0();
    let pid: u64 = kani::any();
    api::open_scope(pid);
    let o: Option<u8> = kani::any();
    assert!(s4(o) == s4_twin(o));
    assert!(api::scope_records() == 1, "a traced call under a local parent must record exactly one span");
    let (_, _, raw_parent, kind, nprops, finished) = api::scope_record(0);
    assert!(kind == 0 && raw_parent == 0 && finished);
    assert!(nprops == 2, "configured properties missing");
    assert!(api::scope_record_name_probe(0) == (2, *b"s4\0", *b"\0\0s4"), "short_name must be the bare identifier");
    assert!(api::local_parent() == Some(pid));
    kani::cover!(true);
}

// ------------------------------------------------------------------------------------------------
// Span NAMES and span COUNTS of the expansions, without the (out-of-reach) span stack: the two
// entry points every expansion goes through are replaced by recording stubs.
//   sync fn              -> LocalSpan::enter_with_local_parent(<name>)            once per call
//   async fn             -> Span::enter_with_local_parent(<name>)                 once per call
//   async + enter_on_poll-> LocalSpan::enter_with_local_parent(<name>)            once per poll
use std::borrow::Cow;

static mut NCALLS_LOCAL: usize = 0;
static mut NCALLS_SPAN: usize = 0;
static mut LAST_NAME: (usize, [u8; 3], [u8; 4]) = (0, [0; 3], [0; 4]);

fn probe(c: &Cow<'static, str>) -> (usize, [u8; 3], [u8; 4]) {
    let b = c.as_bytes();
    let n = b.len();
    let g = |k: usize| if k < n { b[k] } else { 0 };
    let l = |k: usize| if n >= k { b[n - k] } else { 0 };
    (n, [g(0), g(1), g(2)], [l(4), l(3), l(2), l(1)])
}

fn rec_local<T: Into<Cow<'static, str>>>(name: T) -> fastrace::local::LocalSpan {
    let c: Cow<'static, str> = name.into();
    unsafe {
        NCALLS_LOCAL += 1;
        LAST_NAME = probe(&c);
    }
    std::mem::forget(c);
    fastrace::local::LocalSpan::default()
}

fn rec_span<T: Into<Cow<'static, str>>>(name: T) -> Span {
    let c: Cow<'static, str> = name.into();
    unsafe {
        NCALLS_SPAN += 1;
        LAST_NAME = probe(&c);
    }
    std::mem::forget(c);
    Span::noop()
}

fn last_name() -> (usize, [u8; 3], [u8; 4]) {
    unsafe { LAST_NAME }
}

#[kani::proof]
#[kani::unwind(6)]
#[kani::stub(fastrace::local::LocalSpan::enter_with_local_parent, rec_local)]
#[kani::stub(fastrace::Span::enter_with_local_parent, rec_span)]
fn twin_names_sync() {
    let a: u8 = kani::any();
    let b: u8 = kani::any();
    let _ = s1(a, b);
    assert!(unsafe { NCALLS_LOCAL } == 1 && unsafe { NCALLS_SPAN } == 0, "a sync traced call must open exactly one local span");
    // default name = func_path!() = "harness_crate::twins::s1" (24 bytes)
    assert!(last_name() == (24, *b"har", *b"::s1"), "default span name is not the function's full path");
    let mut l = Log::default();
    let _ = s2(&mut l, a, b);
    assert!(unsafe { NCALLS_LOCAL } == 2);
    assert!(last_name() == (13, *b"s2-", *b"ured"), "configured name not used");
    let arr = [1u8, 2];
    let h = Holder { v: &arr };
    let _ = h.pick(a);
    assert!(unsafe { NCALLS_LOCAL } == 3);
    assert!(last_name() == (4, *b"pic", *b"pick"), "short_name must be the bare identifier");
    kani::cover!(true);
}

#[kani::proof]
#[kani::unwind(5)]
#[kani::stub(fastrace::local::LocalSpan::enter_with_local_parent, rec_local)]
#[kani::stub(fastrace::Span::enter_with_local_parent, rec_span)]
fn twin_names_async_enter_on_poll() {
    let a: u8 = kani::any();
    // enter_on_poll: one local span per poll, named "<path>::{{closure}}" (37 bytes)
    let (seq, _) = poll3(a6(a));
    assert!(seq[0] == 1 && seq[1] == 2);
    assert!(unsafe { NCALLS_LOCAL } == 2 && unsafe { NCALLS_SPAN } == 0, "enter_on_poll must open exactly one local span per poll");
    assert!(last_name() == (37, *b"har", *b"re}}"), "enter_on_poll: name must be the configured / default name");
    kani::cover!(true);
}

// NOT REGISTERED: symbolic execution of the in_span adapter inside the async state machine does
// not finish in 40 min (DESIGN.md §1b); kept for a stronger engine.
#[kani::proof]
#[kani::unwind(5)]
#[kani::stub(fastrace::local::LocalSpan::enter_with_local_parent, rec_local)]
#[kani::stub(fastrace::Span::enter_with_local_parent, rec_span)]
fn twin_names_async_in_span() {
    let a: u8 = kani::any();
    // async fn: one thread-safe span per call, named "<path>::{{closure}}" (37 bytes)
    let (seq, out) = poll3(a5(a));
    assert!(seq[0] == 1 && seq[1] == 2 && out == Some(a.wrapping_mul(3)));
    assert!(unsafe { NCALLS_SPAN } == 1 && unsafe { NCALLS_LOCAL } == 0, "an async traced call must create exactly one span");
    assert!(last_name() == (37, *b"har", *b"re}}"), "async default name must be the full path with ::{{closure}}");
    kani::cover!(true);
}
