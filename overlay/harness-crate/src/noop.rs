use fastrace::prelude::*;

#[kani::proof]
fn smoke_noop() {
    let s = Span::noop();
    assert!(SpanContext::from_span(&s).is_none());
    assert!(s.elapsed().is_none());
}
