//! C16 (built WITH `enable`): spans that are not recording — created before a reporter is
//! installed, derived from a no-op span, or local operations with no local parent — deliver
//! nothing, create no context, and none of the property closures handed to them is invoked.
//! Every closure-taking entry point of the public API is called once with a counting closure.
use fastrace::prelude::*;
use fastrace::verif_api as api;

static mut CALLS: u32 = 0;
fn kv() -> (&'static str, &'static str) {
    unsafe { CALLS += 1 };
    ("k", "v")
}
fn kvs() -> [(&'static str, &'static str); 1] {
    unsafe { CALLS += 1 };
    [("k", "v")]
}

#[kani::proof]
fn smoke_noop() {
    let s = Span::noop();
    assert!(SpanContext::from_span(&s).is_none());
    assert!(s.elapsed().is_none());
}

// Span handle routes.  `before_reporter` chooses how the non-recording span is obtained: a root
// created while no reporter is installed (any context), or Span::noop().
#[kani::proof]
#[kani::unwind(3)]
fn noop_span_routes_lazy() {
    api::env_thread0();
    let before_reporter: bool = kani::any();
    let base = if before_reporter {
        api::set_reporter_ready(false);
        let ctx = SpanContext::new(TraceId(kani::any()), SpanId(kani::any())).sampled(kani::any());
        Span::root("root", ctx)
    } else {
        Span::noop()
    };
    let base = base.with_property(kv).with_properties(kvs);
    base.add_property(kv);
    base.add_properties(kvs);
    let child = Span::enter_with_parent("c", &base).with_property(kv).with_properties(kvs);
    child.add_property(kv);
    child.add_properties(kvs);
    assert!(SpanContext::from_span(&base).is_none() && SpanContext::from_span(&child).is_none());
    assert!(base.elapsed().is_none() && child.elapsed().is_none());
    base.cancel();
    let g = child.set_local_parent();
    assert!(SpanContext::current_local_parent().is_none(), "a non-recording span became a local parent");
    assert!(api::depth() == 0);
    drop(g);
    drop(child);
    drop(base);
    assert!(unsafe { CALLS } == 0, "a property closure of a non-recording span was invoked");
    assert!(api::pushed() == 0, "a non-recording span handed something to the collector");
    kani::cover!(before_reporter);
    kani::cover!(!before_reporter);
}

// The same for a span derived from the thread's local parent when there is none.
#[kani::proof]
#[kani::unwind(3)]
fn noop_local_parent_child_lazy() {
    api::env_thread0();
    let s = Span::enter_with_local_parent("lp").with_property(kv).with_properties(kvs);
    s.add_property(kv);
    s.add_properties(kvs);
    assert!(SpanContext::from_span(&s).is_none() && s.elapsed().is_none());
    drop(s);
    assert!(unsafe { CALLS } == 0, "a property closure of a non-recording span was invoked");
    assert!(api::pushed() == 0 && api::depth() == 0);
    kani::cover!(true);
}

// Local-span routes with no local parent in scope.
#[kani::proof]
#[kani::unwind(3)]
fn noop_local_routes_lazy() {
    api::env_thread0();
    let l = LocalSpan::enter_with_local_parent("l").with_property(kv).with_properties(kvs);
    LocalSpan::add_property(kv);
    LocalSpan::add_properties(kvs);
    LocalSpan::add_event(Event::new("e"));
    let l2 = LocalSpan::enter_with_local_parent("l2").with_properties(kvs);
    drop(l2);
    drop(l);
    assert!(SpanContext::current_local_parent().is_none());
    assert!(unsafe { CALLS } == 0, "a property closure was invoked with no local parent in scope");
    assert!(api::pushed() == 0 && api::depth() == 0, "a local operation with no local parent left something behind");
    kani::cover!(true);
}
