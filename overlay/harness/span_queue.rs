//! Harnesses appended (as a child module) to fastrace/src/local/span_queue.rs.
//!
//! Strings are opaque `Cow::Borrowed` literals compared by pointer and length (fastrace moves
//! them, never inspects them).  Ids come from the real `SpanId::next_id` over a symbolic generator
//! state; instants come from the model clock with a symbolic step per reading.
#![allow(static_mut_refs, dead_code, unused_imports)]
use super::*;
use crate::collector::id::verif_harness as idgen;

static N_A: &str = "a";
static N_B: &str = "bb";
static N_EV: &str = "event";
static K1: &str = "k1";
static V1: &str = "v1";
static K2: &str = "k2";
static V2: &str = "v2";

fn same(c: &Cow<'static, str>, s: &'static str) -> bool {
    match c {
        Cow::Borrowed(b) => b.as_ptr() == s.as_ptr() && b.len() == s.len(),
        Cow::Owned(_) => false,
    }
}

fn symbolic_env() {
    idgen::install_symbolic_generator();
    unsafe {
        fastant::CLOCK = kani::any();
        kani::assume(fastant::CLOCK >= 1 && fastant::CLOCK < (1u64 << 62));
        fastant::TICK = 0;
    }
}

/// Concrete ids and clock, for harnesses whose property does not depend on them (a heap buffer
/// holding symbolic words makes every later access through a stored pointer expensive).
fn concrete_env() {
    idgen::install_generator(7, 0);
    unsafe {
        fastant::CLOCK = 1000;
        fastant::TICK = 3;
    }
}

fn now_reading() -> u64 {
    unsafe { fastant::CLOCK }
}

// C02 / C10 / C18: a fixed tree shape  a( b, c( d ) ), e  with every id and every instant symbolic.
#[kani::proof]
#[kani::unwind(2)]
fn sq_tree_links_and_times() {
    symbolic_env();
    let mut q = SpanQueue::with_capacity(8);
    assert!(q.current_parent_id().is_none());
    let a = q.start_span(N_A).unwrap();
    let ta0 = now_reading();
    let ida = q.span_queue[a.index].id;
    assert!(q.current_parent_id() == Some(ida));
    let b = q.start_span(N_B).unwrap();
    let tb0 = now_reading();
    let idb = q.span_queue[b.index].id;
    assert!(q.current_parent_id() == Some(idb));
    let bi = b.index;
    q.finish_span(b);
    let tb1 = now_reading();
    assert!(q.current_parent_id() == Some(ida), "finish_span did not restore the enclosing span as parent");
    let c = q.start_span(N_A).unwrap();
    let tc0 = now_reading();
    let idc = q.span_queue[c.index].id;
    let d = q.start_span(N_B).unwrap();
    let td0 = now_reading();
    let di = d.index;
    q.finish_span(d);
    let td1 = now_reading();
    assert!(q.current_parent_id() == Some(idc));
    let ci = c.index;
    q.finish_span(c);
    let tc1 = now_reading();
    assert!(q.current_parent_id() == Some(ida));
    let ai = a.index;
    q.finish_span(a);
    let ta1 = now_reading();
    assert!(q.current_parent_id().is_none(), "after the outermost span finished there must be no local parent");
    let e = q.start_span(N_A).unwrap();
    let ei = e.index;
    q.finish_span(e);

    let s = &q.span_queue;
    assert!(s.len() == 5);
    // C02: parents
    assert!(s[ai].parent_id == SpanId::default());
    assert!(s[bi].parent_id == ida, "child's parent is not the innermost open span");
    assert!(s[ci].parent_id == ida, "sibling's parent is not the enclosing span");
    assert!(s[di].parent_id == idc, "grandchild's parent is not the innermost open span");
    assert!(s[ei].parent_id == SpanId::default(), "a span started after the tree closed must be a set root");
    // ids distinct and non-zero
    assert!(ida != idb && ida != idc && idb != idc && s[di].id != idc && s[ei].id != ida && s[di].id != idb);
    assert!(ida.0 != 0 && idb.0 != 0 && idc.0 != 0 && s[di].id.0 != 0 && s[ei].id.0 != 0);
    // names / kinds
    assert!(same(&s[ai].name, N_A) && same(&s[bi].name, N_B));
    assert!(s[ai].raw_kind == RawKind::Span && s[di].raw_kind == RawKind::Span);
    // C18: instants are exactly the clock readings at start / finish ...
    assert!(s[ai].begin_instant.0 == ta0 && s[ai].end_instant.0 == ta1);
    assert!(s[bi].begin_instant.0 == tb0 && s[bi].end_instant.0 == tb1);
    assert!(s[ci].begin_instant.0 == tc0 && s[ci].end_instant.0 == tc1);
    assert!(s[di].begin_instant.0 == td0 && s[di].end_instant.0 == td1);
    // ... hence children lie within parents and siblings do not overlap
    assert!(ta0 <= tb0 && tb0 <= tb1 && tb1 <= tc0 && tc0 <= td0 && td0 <= td1 && td1 <= tc1 && tc1 <= ta1);
    assert!(s[ai].end_instant.0 <= s[ei].begin_instant.0);
    kani::cover!(tb0 == tb1, "zero-length span");
    kani::cover!(ta1 > ta0 + 500, "long span");
    std::mem::forget(q); // no drop glue: its slice loop would need its own unwind bound
}

// C02 / C10: one start_span from an ARBITRARY queue state (two recorded spans with arbitrary ids
// and parents, arbitrary next_parent_id): the new span's parent is next_parent_id (0 if none),
// it becomes the next parent, existing records are untouched.
#[kani::proof]
#[kani::unwind(3)]
fn sq_step_start_from_any_state() {
    symbolic_env();
    let mut q = SpanQueue::with_capacity(8);
    let i0 = SpanId(kani::any());
    let p0 = SpanId(kani::any());
    let i1 = SpanId(kani::any());
    let p1 = SpanId(kani::any());
    q.span_queue.push(RawSpan::begin_with(i0, p0, Instant(kani::any()), N_A, RawKind::Span));
    q.span_queue.push(RawSpan::begin_with(i1, p1, Instant(kani::any()), N_B, RawKind::Span));
    let np: Option<SpanId> = if kani::any() { Some(SpanId(kani::any())) } else { None };
    q.next_parent_id = np;
    let h = q.start_span(N_A).unwrap();
    assert!(h.index == 2);
    let s = &q.span_queue;
    assert!(s.len() == 3);
    assert!(s[2].parent_id == np.unwrap_or_default(), "new span's parent is not the current local parent");
    assert!(q.next_parent_id == Some(s[2].id), "new span did not become the local parent");
    assert!(s[2].begin_instant.0 == now_reading() && s[2].end_instant == Instant::ZERO);
    assert!(s[0].id == i0 && s[0].parent_id == p0 && s[1].id == i1 && s[1].parent_id == p1, "existing records changed");
    kani::cover!(np.is_none());
    kani::cover!(np.is_some());
    std::mem::forget(q); // no drop glue: its slice loop would need its own unwind bound
}

// C10: one finish_span from an arbitrary state satisfying finish's precondition (the handle
// denotes the innermost open span): next_parent_id becomes that span's parent (None if it was a
// set root), only its end instant changes.
#[kani::proof]
#[kani::unwind(3)]
fn sq_step_finish_from_any_state() {
    symbolic_env();
    let mut q = SpanQueue::with_capacity(8);
    let i0 = SpanId(kani::any());
    let p0 = SpanId(kani::any());
    let i1 = SpanId(kani::any());
    let p1 = SpanId(kani::any());
    let b0: u64 = kani::any();
    let b1: u64 = kani::any();
    q.span_queue.push(RawSpan::begin_with(i0, p0, Instant(b0), N_A, RawKind::Span));
    q.span_queue.push(RawSpan::begin_with(i1, p1, Instant(b1), N_B, RawKind::Span));
    let which: usize = kani::any();
    kani::assume(which < 2);
    let target = if which == 0 { i0 } else { i1 };
    let tparent = if which == 0 { p0 } else { p1 };
    q.next_parent_id = Some(target); // precondition of finish_span (its debug_assert)
    q.finish_span(SpanHandle { index: which });
    let s = &q.span_queue;
    assert!(
        q.next_parent_id == if tparent == SpanId::default() { None } else { Some(tparent) },
        "finish_span did not restore the finished span's parent as local parent"
    );
    assert!(s[which].end_instant.0 == now_reading());
    assert!(s[1 - which].end_instant == Instant::ZERO, "finish_span touched another span");
    assert!(s[0].id == i0 && s[0].parent_id == p0 && s[1].id == i1 && s[1].parent_id == p1);
    assert!(s[0].begin_instant.0 == b0 && s[1].begin_instant.0 == b1);
    kani::cover!(tparent == SpanId::default());
    kani::cover!(which == 0);
    std::mem::forget(q); // no drop glue: its slice loop would need its own unwind bound
}

// C06: events and properties recorded through the queue become pseudo-spans under the innermost
// open span (or set roots when none is open), in attachment order, payload untouched.
#[kani::proof]
#[kani::unwind(3)]
fn sq_attach_under_innermost() {
    symbolic_env();
    let mut q = SpanQueue::with_capacity(8);
    q.add_event(Event::new(N_EV).with_properties(|| [(K1, V1)]));
    let t_ev0 = now_reading();
    let a = q.start_span(N_A).unwrap();
    let ta0 = now_reading();
    let ida = q.span_queue[a.index].id;
    q.add_properties([(K1, V1), (K2, V2)]);
    let b = q.start_span(N_B).unwrap();
    let idb = q.span_queue[b.index].id;
    q.add_event(Event::new(N_EV));
    let t_ev1 = now_reading();
    q.finish_span(b);
    q.add_properties([(K2, V2)]);
    q.finish_span(a);
    let ta1 = now_reading();
    let s = &q.span_queue;
    assert!(s.len() == 6);
    // 0: event at top level
    assert!(s[0].raw_kind == RawKind::Event && s[0].parent_id == SpanId::default() && same(&s[0].name, N_EV));
    assert!(s[0].begin_instant.0 == t_ev0);
    let p0 = s[0].properties.as_ref().unwrap();
    assert!(p0.len() == 1 && same(&p0[0].0, K1) && same(&p0[0].1, V1), "event properties changed");
    // 2: properties under a, in order
    assert!(s[2].raw_kind == RawKind::Properties && s[2].parent_id == ida, "properties not attached to the innermost open span");
    let p2 = s[2].properties.as_ref().unwrap();
    assert!(p2.len() == 2 && same(&p2[0].0, K1) && same(&p2[0].1, V1) && same(&p2[1].0, K2) && same(&p2[1].1, V2));
    // 4: event under b, timestamp inside a's interval
    assert!(s[4].raw_kind == RawKind::Event && s[4].parent_id == idb, "event not attached to the innermost open span");
    assert!(s[4].properties.is_none());
    assert!(s[4].begin_instant.0 == t_ev1 && ta0 <= t_ev1 && t_ev1 <= ta1);
    // 5: properties after b finished attach to a again
    assert!(s[5].raw_kind == RawKind::Properties && s[5].parent_id == ida, "attachment after a child finished went to the wrong span");
    // attaching never changes the local parent
    assert!(q.current_parent_id().is_none());
    // pseudo-span ids are fresh
    assert!(s[0].id != s[2].id && s[2].id != s[4].id && s[4].id != ida && s[4].id != idb);
    kani::cover!(true);
    std::mem::forget(q); // no drop glue: its slice loop would need its own unwind bound
}

// C06: a property attached right after a child span finished — the child's last record being a
// property of its own, nothing recorded in between — belongs to the parent, and the child's stays
// on the child alone.  (The two attachments have different targets, so they cannot share a
// pseudo-span record whatever packing an implementation uses for attachments of one target.  A
// formulation that scans all records for (target, key, value) triples ran out of memory at 12 GB.)
#[kani::proof]
#[kani::unwind(3)]
fn sq_attach_after_child_finished() {
    symbolic_env();
    let mut q = SpanQueue::with_capacity(8);
    let a = q.start_span(N_A).unwrap();
    let ida = q.span_queue[a.index].id;
    let b = q.start_span(N_B).unwrap();
    let idb = q.span_queue[b.index].id;
    q.add_properties([(K1, V1)]);
    q.finish_span(b);
    q.add_properties([(K2, V2)]);
    let s = &q.span_queue;
    assert!(s.len() == 4, "an attachment was lost or merged into a record of another target");
    assert!(s[2].raw_kind == RawKind::Properties && s[2].parent_id == idb, "the child's property moved to another span");
    let p2 = s[2].properties.as_ref().unwrap();
    assert!(p2.len() == 1 && same(&p2[0].0, K1) && same(&p2[0].1, V1), "the finished child received an attachment made after it finished");
    assert!(s[3].raw_kind == RawKind::Properties && s[3].parent_id == ida, "a property attached after the child finished did not land on the parent");
    let p3 = s[3].properties.as_ref().unwrap();
    assert!(p3.len() == 1 && same(&p3[0].0, K2) && same(&p3[0].1, V2));
    assert!(s[0].properties.is_none() && s[1].properties.is_none(), "an attachment through the local parent ended up on a span record");
    kani::cover!(true);
    std::mem::forget(q);
}

// C06: ONE add_properties from a state built directly: the last record is a Properties pseudo-span
// of ANOTHER target (any ids), the current local parent is some other span: the new attachment gets
// a record of its own under the current local parent; the existing record is untouched.
#[kani::proof]
#[kani::unwind(3)]
fn sq_step_add_properties_after_foreign_properties() {
    concrete_env();
    let mut q = SpanQueue::with_capacity(4);
    let i0 = SpanId(kani::any());
    let p0 = SpanId(kani::any());
    let np = SpanId(kani::any());
    kani::assume(np != p0);
    let mut r = RawSpan::begin_with(i0, p0, Instant(5), "", RawKind::Properties);
    r.properties = Some(vec![(Cow::Borrowed(K1), Cow::Borrowed(V1))]);
    q.span_queue.push(r);
    q.next_parent_id = Some(np);
    q.add_properties([(K2, V2)]);
    let s = &q.span_queue;
    assert!(s.len() == 2, "an attachment was lost or merged into a record of another target");
    assert!(s[0].id == i0 && s[0].parent_id == p0 && s[0].raw_kind == RawKind::Properties);
    let p = s[0].properties.as_ref().unwrap();
    assert!(p.len() == 1 && same(&p[0].0, K1) && same(&p[0].1, V1), "a record of another target received the attachment");
    assert!(s[1].raw_kind == RawKind::Properties && s[1].parent_id == np, "attachment not under the current local parent");
    let p1 = s[1].properties.as_ref().unwrap();
    assert!(p1.len() == 1 && same(&p1[0].0, K2) && same(&p1[0].1, V2));
    assert!(q.next_parent_id == Some(np), "attaching changed the local parent");
    kani::cover!(true);
    std::mem::forget(q);
}

// C06: with_properties hits the span the handle denotes (outer or inner, symbolic) and no other.
#[kani::proof]
#[kani::unwind(3)]
fn sq_with_properties_hits_handle() {
    concrete_env();
    let mut q = SpanQueue::with_capacity(8);
    let a = q.start_span(N_A).unwrap();
    let b = q.start_span(N_B).unwrap();
    let outer: bool = kani::any();
    q.with_properties(if outer { &a } else { &b }, [(K1, V1)]);
    let s = &q.span_queue;
    let (hit, other) = if outer { (a.index, b.index) } else { (b.index, a.index) };
    let ph = s[hit].properties.as_ref().unwrap();
    assert!(ph.len() == 1 && same(&ph[0].0, K1) && same(&ph[0].1, V1), "properties not on the span the handle denotes");
    assert!(s[other].properties.is_none(), "properties leaked to another span");
    assert!(s.len() == 2);
    kani::cover!(outer);
    kani::cover!(!outer);
    std::mem::forget(q);
}

// C09: at capacity start_span is None, add_event / add_properties record nothing, the recorded
// spans keep their parents and the local parent is unchanged.  One harness per capacity.
fn sq_capacity_limit(cap: usize) {
    symbolic_env();
    let mut q = SpanQueue::with_capacity(cap);
    let a = q.start_span(N_A).unwrap();
    let ida = q.span_queue[a.index].id;
    let b = if cap >= 2 { q.start_span(N_B) } else { None };
    assert!(q.span_queue.len() == cap);
    let parent_before = q.current_parent_id();
    assert!(q.start_span(N_A).is_none(), "span recorded beyond the limit");
    q.add_event(Event::new(N_EV));
    q.add_properties([(K1, V1)]);
    assert!(q.span_queue.len() == cap, "pseudo-span recorded beyond the limit");
    assert!(q.current_parent_id() == parent_before, "a skipped span changed the local parent");
    // the recorded ones can still be finished and keep correct parents
    if let Some(b) = b {
        assert!(q.span_queue[b.index].parent_id == ida);
        q.finish_span(b);
    }
    q.finish_span(a);
    assert!(q.current_parent_id().is_none());
    assert!(q.span_queue[0].parent_id == SpanId::default());
    kani::cover!(true);
    std::mem::forget(q);
}
#[kani::proof]
#[kani::unwind(3)]
fn sq_capacity_limit_1() {
    sq_capacity_limit(1);
}
#[kani::proof]
#[kani::unwind(3)]
fn sq_capacity_limit_2() {
    sq_capacity_limit(2);
}

/// Helper for other harness modules.
pub(crate) fn mk_handle(index: usize) -> SpanHandle {
    SpanHandle { index }
}
pub(crate) fn records(q: &SpanQueue) -> &RawSpans {
    &q.span_queue
}
pub(crate) fn mk_queue(raws: RawSpans, capacity: usize, next_parent_id: Option<SpanId>) -> SpanQueue {
    SpanQueue { span_queue: raws, capacity, next_parent_id }
}
