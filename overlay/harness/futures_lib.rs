//! Harnesses appended (as a child module) to fastrace-futures/src/lib.rs  —  C14.
#![allow(static_mut_refs, dead_code, unused_imports)]
use super::*;
use fastrace::verif_api as api;
use std::task::Waker;

static mut SEEN_DEPTH: usize = 99;
static mut SEEN_PARENT: Option<u64> = None;

fn observe() {
    unsafe {
        SEEN_DEPTH = api::depth();
        SEEN_PARENT = api::local_parent();
    }
}

/// A stream that yields `items` values and then ends; observes the local context at each poll.
struct Probe {
    items: u8,
    pending: bool,
}
impl Stream for Probe {
    type Item = u8;
    fn poll_next(mut self: Pin<&mut Self>, _cx: &mut Context<'_>) -> Poll<Option<u8>> {
        observe();
        if self.pending {
            return Poll::Pending;
        }
        if self.items > 0 {
            self.items -= 1;
            Poll::Ready(Some(7))
        } else {
            Poll::Ready(None)
        }
    }
}

/// A sink whose every method observes the local context and is Ready.
struct SinkProbe {
    sent: u8,
    close_pending: bool,
    /// result of poll_ready / start_send / poll_flush: 0 = Ready(Ok) / Ok, 1 = Ready(Err) / Err, 2 = Pending (Err for start_send)
    ret: u8,
}
fn sink_ret(ret: u8) -> Poll<Result<(), ()>> {
    match ret {
        0 => Poll::Ready(Ok(())),
        1 => Poll::Ready(Err(())),
        _ => Poll::Pending,
    }
}
impl Sink<u8> for SinkProbe {
    type Error = ();
    fn poll_ready(self: Pin<&mut Self>, _cx: &mut Context<'_>) -> Poll<Result<(), ()>> {
        observe();
        sink_ret(self.ret)
    }
    fn start_send(mut self: Pin<&mut Self>, _item: u8) -> Result<(), ()> {
        observe();
        self.sent += 1;
        if self.ret == 0 { Ok(()) } else { Err(()) }
    }
    fn poll_flush(self: Pin<&mut Self>, _cx: &mut Context<'_>) -> Poll<Result<(), ()>> {
        observe();
        sink_ret(self.ret)
    }
    fn poll_close(self: Pin<&mut Self>, _cx: &mut Context<'_>) -> Poll<Result<(), ()>> {
        observe();
        if self.close_pending { Poll::Pending } else { Poll::Ready(Ok(())) }
    }
}

// C14: a stream item poll: the span is the local parent during poll_next, the context is restored
// afterwards, one local span set is handed over, the span is not finished.
#[kani::proof]
#[kani::unwind(3)]
fn fs_stream_item_poll() {
    api::env_thread0();
    let id: u64 = kani::any();
    let pending: bool = kani::any(); // the inner stream is not ready / yields an item: same scoping either way
    let mut s = StreamExt::in_span(Probe { items: 1, pending }, api::mk_span(id, kani::any(), kani::any(), kani::any(), false));
    let mut cx = Context::from_waker(Waker::noop());
    let sp = unsafe { Pin::new_unchecked(&mut s) };
    let r = sp.poll_next(&mut cx);
    assert!(r == if pending { Poll::Pending } else { Poll::Ready(Some(7)) }, "the inner stream's result was not passed through");
    assert!(unsafe { SEEN_DEPTH } == 1 && unsafe { SEEN_PARENT } == Some(id), "the span was not the local parent during poll_next");
    assert!(api::depth() == 0, "the local context was not restored after poll_next");
    assert!(api::pushed() == 1 && api::pushed_kind(0) == 3 && api::pushed_set_kind(0) == 1, "a poll must hand over exactly its local span set");
    assert!(api::pushed_token_parent(0) == Some(id));
    assert!(s.span.is_some(), "the span finished before the stream ended");
    std::mem::forget(s);
    kani::cover!(pending);
    kani::cover!(!pending);
}

// C14: end of stream on a ROOT span: the span finishes, and that poll's local spans are handed over
// before the commit.
#[kani::proof]
#[kani::unwind(3)]
fn fs_stream_end_root() {
    api::env_thread0();
    let id: u64 = kani::any();
    let cid: usize = kani::any();
    let mut s = StreamExt::in_span(Probe { items: 0, pending: false }, api::mk_span(id, kani::any(), kani::any(), cid, true));
    let mut cx = Context::from_waker(Waker::noop());
    let sp = unsafe { Pin::new_unchecked(&mut s) };
    let r = sp.poll_next(&mut cx);
    assert!(r == Poll::Ready(None));
    assert!(s.span.is_none(), "the span must finish when the stream yields None");
    assert!(api::depth() == 0);
    assert!(api::pushed() == 3, "end of stream on a root must hand over: local spans, the span, the commit");
    let k = |i: usize| (api::pushed_kind(i), api::pushed_set_kind(i));
    let pos_local = if k(0) == (3, 1) { 0 } else if k(1) == (3, 1) { 1 } else { 2 };
    let pos_commit = if k(0).0 == 2 { 0 } else if k(1).0 == 2 { 1 } else { 2 };
    assert!(pos_local < pos_commit, "the last poll's local spans are handed over after the root's commit");
    std::mem::forget(s);
    kani::cover!(true);
}

// C14: sink: poll_ready / start_send / poll_flush scope the span and do not finish it.
#[kani::proof]
#[kani::unwind(3)]
fn fs_sink_send_calls() {
    api::env_thread0();
    let id: u64 = kani::any();
    let ret: u8 = kani::any(); // what the inner sink answers: Ready(Ok) / Ready(Err) / Pending — the span stays in every case
    kani::assume(ret < 3);
    let mut s = SinkExt::in_span(SinkProbe { sent: 0, close_pending: false, ret }, api::mk_span(id, kani::any(), kani::any(), kani::any(), false));
    let mut cx = Context::from_waker(Waker::noop());
    let which: u8 = kani::any();
    kani::assume(which < 3);
    let sp = unsafe { Pin::new_unchecked(&mut s) };
    match which {
        0 => assert!(Sink::<u8>::poll_ready(sp, &mut cx) == sink_ret(ret), "poll_ready's result was not passed through"),
        1 => assert!(Sink::<u8>::start_send(sp, 3) == if ret == 0 { Ok(()) } else { Err(()) }, "start_send's result was not passed through"),
        _ => assert!(Sink::<u8>::poll_flush(sp, &mut cx) == sink_ret(ret), "poll_flush's result was not passed through"),
    }
    assert!(unsafe { SEEN_DEPTH } == 1 && unsafe { SEEN_PARENT } == Some(id), "the span was not the local parent during the sink call");
    assert!(api::depth() == 0, "the local context was not restored after the sink call");
    assert!(api::pushed() == 1 && api::pushed_kind(0) == 3 && api::pushed_set_kind(0) == 1);
    assert!(s.span.is_some(), "the span finished before the sink was closed");
    std::mem::forget(s);
    kani::cover!(which == 1);
    kani::cover!(which == 0 && ret == 2);
    kani::cover!(which == 2 && ret == 1);
}

// C14: poll_close: Pending keeps the span; Ready finishes it, local spans before the commit.
#[kani::proof]
#[kani::unwind(3)]
fn fs_sink_close_root() {
    api::env_thread0();
    let id: u64 = kani::any();
    let pending: bool = kani::any();
    let mut s = SinkExt::in_span(SinkProbe { sent: 0, close_pending: pending, ret: 0 }, api::mk_span(id, kani::any(), kani::any(), kani::any(), true));
    let mut cx = Context::from_waker(Waker::noop());
    let sp = unsafe { Pin::new_unchecked(&mut s) };
    let r = Sink::<u8>::poll_close(sp, &mut cx);
    assert!(api::depth() == 0);
    if pending {
        assert!(r == Poll::Pending && s.span.is_some(), "the span finished although close is pending");
        assert!(api::pushed() == 1);
    } else {
        assert!(r == Poll::Ready(Ok(())) && s.span.is_none(), "the span must finish when close completes");
        assert!(api::pushed() == 3);
        let k = |i: usize| (api::pushed_kind(i), api::pushed_set_kind(i));
        let pos_local = if k(0) == (3, 1) { 0 } else if k(1) == (3, 1) { 1 } else { 2 };
        let pos_commit = if k(0).0 == 2 { 0 } else if k(1).0 == 2 { 1 } else { 2 };
        assert!(pos_local < pos_commit, "the last call's local spans are handed over after the root's commit");
    }
    std::mem::forget(s);
    kani::cover!(pending);
    kani::cover!(!pending);
}

// C14 / C16: a no-op span: calls pass through, nothing is scoped or pushed.
#[kani::proof]
#[kani::unwind(3)]
fn fs_noop() {
    api::env_thread0();
    let mut s = StreamExt::in_span(Probe { items: 0, pending: false }, fastrace::Span::noop());
    let mut cx = Context::from_waker(Waker::noop());
    let sp = unsafe { Pin::new_unchecked(&mut s) };
    assert!(sp.poll_next(&mut cx) == Poll::Ready(None));
    assert!(unsafe { SEEN_DEPTH } == 0 && api::pushed() == 0 && api::depth() == 0);
    kani::cover!(true);
}
