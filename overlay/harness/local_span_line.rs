//! Harnesses appended (as a child module) to fastrace/src/local/local_span_line.rs.
//! A `SpanLine` is used as a plain value (no thread-local stack involved).  Shapes (number of token
//! items) are fixed per harness; ids, flags and epochs are symbolic.
#![allow(static_mut_refs, dead_code, unused_imports)]
use super::*;
use crate::collector::id::verif_harness as idgen;
use crate::collector::SpanId;
use crate::collector::TraceId;

static N_A: &str = "a";
static N_EV: &str = "event";
static K1: &str = "k1";
static V1: &str = "v1";
static mut CLOSURE_CALLS: u32 = 0;

fn any_item(sampled: bool) -> CollectTokenItem {
    CollectTokenItem {
        trace_id: TraceId(kani::any()),
        parent_id: SpanId(kani::any()),
        collect_id: kani::any(),
        is_root: kani::any(),
        is_sampled: sampled,
    }
}

fn props() -> [(&'static str, &'static str); 1] {
    unsafe { CLOSURE_CALLS += 1 };
    [(K1, V1)]
}

fn with_parent(it: &CollectTokenItem, p: SpanId) -> CollectTokenItem {
    CollectTokenItem { parent_id: p, ..*it }
}

// C02 / C11: current_collect_token keeps trace/collect ids and flags and sets the parent to the
// innermost open local span, else to the item's own parent (one-item token).
#[kani::proof]
#[kani::unwind(3)]
fn sl_token_innermost() {
    idgen::install_symbolic_generator();
    let a = any_item(kani::any());
    kani::assume(a.is_sampled);
    let mut line = SpanLine::new(8, kani::any(), Some(vec![a]));
    let t0 = line.current_collect_token().unwrap();
    assert!(t0.len() == 1 && t0[0] == a, "with no open local span the token must be the scope's own");
    let h1 = line.start_span(N_A).unwrap();
    let id1 = line.span_queue.current_parent_id().unwrap();
    let t1 = line.current_collect_token().unwrap();
    assert!(t1.len() == 1 && t1[0] == with_parent(&a, id1), "token parent is not the innermost open local span");
    line.finish_span(h1);
    let t2 = line.current_collect_token().unwrap();
    assert!(t2[0] == a, "after the local span finished the scope's own parent must be restored");
    std::mem::forget((line, t0, t1, t2));
    kani::cover!(true);
}

// C02 / C05: two-item token (span with two parents): both items get the innermost local span as
// parent, everything else (including each item's sampling flag) is preserved, order kept.
#[kani::proof]
#[kani::unwind(4)]
fn sl_token_two_items() {
    idgen::install_symbolic_generator();
    let a = any_item(true);
    let b = any_item(kani::any());
    let mut line = SpanLine::new(8, 0, Some(vec![a, b]));
    let _h1 = line.start_span(N_A).unwrap();
    let id1 = line.span_queue.current_parent_id().unwrap();
    let t1 = line.current_collect_token().unwrap();
    assert!(t1.len() == 2, "token item lost");
    assert!(t1[0] == with_parent(&a, id1) && t1[1] == with_parent(&b, id1), "items changed, reordered or not re-parented");
    std::mem::forget((line, t1));
    kani::cover!(!b.is_sampled);
}

// C05 / C16: a scope whose only token item is unsampled records nothing and never calls a
// property closure.
#[kani::proof]
#[kani::unwind(3)]
fn sl_unsampled_inert_1() {
    idgen::install_symbolic_generator();
    let mut line = SpanLine::new(8, 3, Some(vec![any_item(false)]));
    let h = line.start_span(N_A);
    assert!(h.is_none(), "span recorded in an unsampled scope");
    line.add_event(Event::new(N_EV));
    line.add_properties(props);
    assert!(unsafe { CLOSURE_CALLS } == 0, "property closure invoked in an unsampled scope");
    assert!(line.span_queue.current_parent_id().is_none());
    let n = line.span_queue.take_queue().len();
    assert!(n == 0, "unsampled scope recorded something");
    kani::cover!(true);
}

// C06 / C16: a sampled scope records and calls the property closure exactly once.
#[kani::proof]
#[kani::unwind(3)]
fn sl_sampled_records() {
    idgen::install_symbolic_generator();
    let mut line = SpanLine::new(8, 3, Some(vec![any_item(true)]));
    let h = line.start_span(N_A);
    assert!(h.is_some(), "span skipped in a sampled scope");
    line.add_properties(props);
    assert!(unsafe { CLOSURE_CALLS } == 1, "property closure not invoked exactly once in a sampled scope");
    let q = line.span_queue.take_queue();
    assert!(q.len() == 2 && q[1].parent_id == q[0].id, "properties not recorded under the open span");
    std::mem::forget(q);
    kani::cover!(true);
}

// C05: with two parents the scope records iff at least one is sampled.
#[kani::proof]
#[kani::unwind(4)]
fn sl_unsampled_inert_2() {
    idgen::install_symbolic_generator();
    let s0: bool = kani::any();
    let s1: bool = kani::any();
    let mut line = SpanLine::new(8, 3, Some(vec![any_item(s0), any_item(s1)]));
    let h = line.start_span(N_A);
    assert!(h.is_some() == (s0 || s1), "span with a sampled and an unsampled parent: recording decision wrong");
    if let Some(h) = &h {
        line.with_properties(h, props);
    }
    assert!(unsafe { CLOSURE_CALLS } == if s0 || s1 { 1 } else { 0 });
    std::mem::forget(line);
    kani::cover!(!s0 && s1);
    kani::cover!(!s0 && !s1);
}

// C10: a handle from another scope (epoch) changes nothing.
#[kani::proof]
#[kani::unwind(3)]
fn sl_stale_handles_ignored() {
    idgen::install_symbolic_generator();
    let e: usize = kani::any();
    let other: usize = kani::any();
    kani::assume(e != other);
    let mut line = SpanLine::new(8, e, Some(vec![any_item(true)]));
    let _h = line.start_span(N_A).unwrap();
    let parent_before = line.span_queue.current_parent_id();
    let stale = LocalSpanHandle { span_line_epoch: other, span_handle: crate::local::span_queue::verif_harness::mk_handle(0) };
    line.with_properties(&stale, props);
    assert!(unsafe { CLOSURE_CALLS } == 0, "closure called for a stale handle");
    line.finish_span(stale);
    assert!(line.span_queue.current_parent_id() == parent_before, "a stale handle finished a span of another scope");
    assert!(line.span_line_epoch() == e);
    std::mem::forget(line);
    kani::cover!(true);
}

// C10 / C17: a collector scope (no token) records, exposes no token, hands its spans back only
// to its own handle.
#[kani::proof]
#[kani::unwind(4)]
fn sl_collector_scope() {
    idgen::install_symbolic_generator();
    let e: usize = kani::any();
    let foreign: bool = kani::any();
    let mut line = SpanLine::new(8, e, None);
    assert!(line.current_collect_token().is_none());
    let h = line.start_span(N_A).unwrap();
    line.add_event(Event::new(N_EV));
    line.finish_span(h);
    let r = line.collect(if foreign { e.wrapping_add(1) } else { e });
    if foreign {
        assert!(r.is_none(), "a scope was collected with a foreign handle");
    } else {
        let (spans, tok) = r.unwrap();
        assert!(tok.is_none() && spans.len() == 2);
        assert!(spans[1].parent_id == spans[0].id);
        std::mem::forget(spans);
    }
    kani::cover!(foreign);
    kani::cover!(!foreign);
}

/// Helper for other harness modules: the id a new local span / child span of this scope would get
/// as parent (innermost open local span, else the first token item's parent).
pub(crate) fn line_parent(l: &SpanLine) -> Option<SpanId> {
    match l.span_queue.current_parent_id() {
        Some(p) => Some(p),
        None => l.collect_token.as_ref().and_then(|t| t.first()).map(|i| i.parent_id),
    }
}
pub(crate) fn line_records(l: &SpanLine) -> &crate::util::RawSpans {
    crate::local::span_queue::verif_harness::records(&l.span_queue)
}
pub(crate) fn mk_line(epoch: usize, token: Option<CollectToken>, queue: SpanQueue) -> SpanLine {
    let is_sampled = match &token {
        Some(t) => t.iter().any(|i| i.is_sampled),
        None => true,
    };
    SpanLine { span_queue: queue, epoch, collect_token: token, is_sampled }
}

// C09 / C10 / C02: a scope that has reached its span limit still FINISHES the spans it recorded
// (finishing needs no free slot): the local parent is restored step by step, tokens follow.
#[kani::proof]
#[kani::unwind(3)]
fn sl_full_scope_still_finishes() {
    idgen::install_symbolic_generator();
    let a = any_item(true);
    let mut line = SpanLine::new(2, 0, Some(vec![a]));
    let h1 = line.start_span(N_A).unwrap();
    let id1 = line.span_queue.current_parent_id().unwrap();
    let h2 = line.start_span(N_A).unwrap(); // the scope is now at its limit
    assert!(line.start_span(N_A).is_none(), "span recorded beyond the limit");
    line.add_event(Event::new(N_EV));
    line.finish_span(h2);
    assert!(line.span_queue.current_parent_id() == Some(id1), "a scope at its span limit did not finish a recorded span: stale local parent");
    let t = line.current_collect_token().unwrap();
    assert!(t[0].parent_id == id1, "token parent is a span that has already finished");
    line.finish_span(h1);
    assert!(line.span_queue.current_parent_id().is_none());
    let t2 = line.current_collect_token().unwrap();
    assert!(t2[0] == a, "after all local spans finished the scope's own parent must be restored");
    let q = line.span_queue.take_queue();
    assert!(q.len() == 2 && q[0].end_instant != fastant::Instant::ZERO && q[1].end_instant != fastant::Instant::ZERO, "a recorded span was left without an end instant");
    std::mem::forget((q, t, t2));
    kani::cover!(true);
}

/// Helper for other harness modules.
pub(crate) fn mk_local_handle(epoch: usize, index: usize) -> LocalSpanHandle {
    LocalSpanHandle { span_line_epoch: epoch, span_handle: crate::local::span_queue::verif_harness::mk_handle(index) }
}
