//! Harnesses appended (as a child module) to fastrace/src/util/spsc.rs  —  the queue link.
//!
//! `Sender<T>` / `Receiver<T>` are generic and never inspect `T`; they are decided at `T = u8`.
//!
//! Method: ONE OPERATION FROM AN ARBITRARY VALID STATE (inductive step).  The abstract content of
//! a channel is the sequence  Q = ring (oldest first) ++ overflow list (front first): the commands
//! accepted so far and not yet received, in acceptance order.  Representation invariant: that
//! sequence really is in acceptance order (`Sender::drop` and the append in `force_send` both
//! treat the front of the overflow list as the oldest entry).  Each harness builds an arbitrary
//! state satisfying the invariant (ring occupancy 0..=cap, overflow list 0..=2 entries), runs one
//! operation with the other side interleaved through the ring model's yield hook, and asserts
//!   received-so-far ++ Q'  ==  Q ++ [x]   (x only if accepted),
//! i.e. nothing lost, duplicated or reordered.  Initial state (empty ring, empty list) satisfies
//! the invariant, so by induction the statement covers operation histories of any length
//! (composition lemma `queue-induction`, on paper, listed in trusted_base).
//!
//! Schedules:
//!   mode B (sender operations): before each of the producer's `push`es the consumer runs 0 or 1
//!           whole `try_recv` (symbolic);
//!   mode A (try_recv): before `pop` and before `is_abandoned` the producer runs 0..=2 further
//!           operations of a 2-operation program (symbolic).
#![allow(static_mut_refs, dead_code, unused_imports)]
use super::*;

const MAXG: usize = 8;

static mut MODE: u8 = 0; // 0 = hooks off, 1 = mode A, 2 = mode B
static mut TX: Option<Sender<u8>> = None;
static mut RX: Option<Receiver<u8>> = None;
static mut GOT: [u8; MAXG] = [0; MAXG];
static mut NGOT: usize = 0;
static mut CLOSED: bool = false;
static mut YIELDS_USED: u8 = 0;

// mode A producer program: P0 then P1
#[derive(Copy, Clone, PartialEq, Eq)]
enum Op {
    Send(u8),
    Force(u8),
    Exit,
    Nop,
}
static mut P0: Op = Op::Nop;
static mut P1: Op = Op::Nop;
static mut PC: u8 = 0;
static mut ACCEPTED: [bool; 2] = [false; 2];
/// ring + overflow list could not all be handed over at thread exit (ring still full)
static mut EXIT_OVERFLOW: bool = false;

fn consumer_step() {
    unsafe {
        if CLOSED {
            return; // the collector removes a closed receiver and never polls it again
        }
        if let Some(rx) = RX.as_mut() {
            match rx.try_recv() {
                Ok(Some(v)) => {
                    if NGOT < MAXG {
                        GOT[NGOT] = v;
                    }
                    NGOT += 1;
                }
                Ok(None) => {}
                Err(ChannelClosed) => {
                    CLOSED = true;
                }
            }
        }
    }
}

#[inline(never)]
fn run_op(op: Op, idx: usize) {
    unsafe {
        match op {
            Op::Send(v) => {
                if let Some(tx) = TX.as_mut() {
                    ACCEPTED[idx] = tx.send(v).is_ok();
                }
            }
            Op::Force(v) => {
                if let Some(tx) = TX.as_mut() {
                    tx.force_send(v);
                    ACCEPTED[idx] = true;
                }
            }
            Op::Exit => {
                if let Some(tx) = TX.as_ref() {
                    if tx.pending_messages.len() > tx.tx.slots() {
                        EXIT_OVERFLOW = true;
                    }
                }
                TX = None; // thread exit: drops the Sender (hands over the overflow list)
            }
            Op::Nop => {}
        }
    }
}

fn hook(tag: u8) {
    unsafe {
        match (MODE, tag) {
            (1, 0) | (1, 1) => {
                MODE = 0;
                if PC == 0 && kani::any() {
                    run_op(P0, 0);
                    PC = 1;
                    YIELDS_USED += 1;
                }
                if PC == 1 && kani::any() {
                    run_op(P1, 1);
                    PC = 2;
                    YIELDS_USED += 1;
                }
                MODE = 1;
            }
            (2, 2) => {
                MODE = 0;
                if kani::any() {
                    YIELDS_USED += 1;
                    consumer_step();
                }
                MODE = 2;
            }
            _ => {}
        }
    }
}

/// Arbitrary valid state, built through the API only (so the harness does not depend on how the
/// overflow list is represented): the ring is filled, `p` commands 100,101 are force-sent onto the
/// full ring (they are parked), then the ring is emptied down to `r` commands by the model.
/// Afterwards the ring holds 200+cap-r .. 200+cap-1 and the overflow list holds 100.. .
static mut BASE: u8 = 200;
fn setup(cap: usize, r: usize, p: usize) {
    unsafe {
        rtrb::MODEL_CAPACITY = cap;
        rtrb::YIELD_HOOK = Some(hook);
        let (mut tx, rx) = bounded::<u8>(cap);
        let _ = tx.tx.push(200);
        if cap >= 2 {
            let _ = tx.tx.push(201);
        }
        if cap >= 3 {
            let _ = tx.tx.push(202);
        }
        if p >= 1 {
            tx.force_send(100);
        }
        if p >= 2 {
            tx.force_send(101);
        }
        if r < cap {
            tx.tx.model_discard_front();
        }
        if r + 1 < cap {
            tx.tx.model_discard_front();
        }
        if r + 2 < cap {
            tx.tx.model_discard_front();
        }
        BASE = 200 + (cap - r) as u8;
        TX = Some(tx);
        RX = Some(rx);
    }
}

/// Observation, independent of the representation of the overflow list: "if the thread exited now
/// and the ring had room, what would the collector receive, in which order?"  The ring is enlarged,
/// the Sender is dropped (which hands the overflow list over), and the ring is read.
fn observe_by_exit() {
    unsafe {
        MODE = 0;
        if let Some(mut tx) = TX.take() {
            tx.tx.model_set_capacity(rtrb::SLOTS);
            drop(tx);
        }
    }
}

/// i-th element of  received ++ ring  (None past the end); call after `observe_by_exit`.
fn abstract_at(i: usize) -> Option<u8> {
    unsafe {
        let n = if NGOT < MAXG { NGOT } else { MAXG };
        if i < n {
            return Some(GOT[i]);
        }
        match RX.as_ref() {
            Some(rx) => rx.rx.model_peek(i - n).copied(),
            None => None,
        }
    }
}

/// Expected sequence: r ring commands, p parked commands, then `x` if accepted.
fn expected_at(i: usize, r: usize, p: usize, x: Option<u8>) -> Option<u8> {
    if i < r {
        Some(unsafe { BASE } + i as u8)
    } else if i < r + p {
        Some(100 + (i - r) as u8)
    } else if i == r + p {
        x
    } else {
        None
    }
}

fn assert_abstract_queue(r: usize, p: usize, x: Option<u8>) {
    observe_by_exit();
    assert!(abstract_at(0) == expected_at(0, r, p, x), "queue content differs at position 0 (lost / reordered / duplicated command)");
    assert!(abstract_at(1) == expected_at(1, r, p, x), "queue content differs at position 1 (lost / reordered / duplicated command)");
    assert!(abstract_at(2) == expected_at(2, r, p, x), "queue content differs at position 2 (lost / reordered / duplicated command)");
    assert!(abstract_at(3) == expected_at(3, r, p, x), "queue content differs at position 3 (lost / reordered / duplicated command)");
    assert!(abstract_at(4) == expected_at(4, r, p, x), "queue content differs at position 4 (lost / reordered / duplicated command)");
    assert!(abstract_at(5) == expected_at(5, r, p, x), "queue content differs at position 5 (lost / reordered / duplicated command)");
}

/// One harness per shape (capacity, overflow-list length): the runner lists the shapes, each query
/// still quantifies over the ring occupancy and over every interleaving decision.
fn arbitrary_state(cap: usize, p: usize) -> (usize, usize, usize) {
    let r: usize = kani::any();
    kani::assume(r <= cap);
    setup(cap, r, p);
    (cap, r, p)
}

macro_rules! shapes {
    ($body:ident: $($name:ident = ($cap:expr, $p:expr)),* $(,)?) => {
        $(
            #[kani::proof]
            #[kani::unwind(4)]
            fn $name() {
                $body($cap, $p);
            }
        )*
    };
}

// ------------------------------------------------------------------------------------------------
// C04/C09/C01: force_send from an arbitrary valid state, consumer interleaved at every push.
// The command is always accepted and is placed after everything accepted earlier.
shapes!(q_step_force_send:
    q_step_force_send_c1p0 = (1, 0), q_step_force_send_c1p1 = (1, 1),
    q_step_force_send_c2p0 = (2, 0), q_step_force_send_c2p1 = (2, 1));
fn q_step_force_send(cap: usize, p: usize) {
    let (cap, r, p) = arbitrary_state(cap, p);
    unsafe { MODE = 2 };
    unsafe { TX.as_mut().unwrap().force_send(7) };
    unsafe { MODE = 0 };
    let parked = unsafe { !TX.as_ref().unwrap().pending_messages.is_empty() };
    assert_abstract_queue(r, p, Some(7));
    unsafe {
        kani::cover!(YIELDS_USED > 0 && r == cap, "full ring, consumer interleaved");
        kani::cover!(parked || p == 0, "command parked (shapes with a non-empty overflow list)");
    }
}

// C09/C01: send from an arbitrary valid state.  Accepted => appended after everything earlier;
// rejected => the queue is unchanged (only that command is omitted).
shapes!(q_step_send:
    q_step_send_c1p0 = (1, 0), q_step_send_c1p1 = (1, 1), q_step_send_c1p2 = (1, 2),
    q_step_send_c2p0 = (2, 0), q_step_send_c2p1 = (2, 1), q_step_send_c2p2 = (2, 2));
fn q_step_send(cap: usize, p: usize) {
    let (cap, r, p) = arbitrary_state(cap, p);
    unsafe { MODE = 2 };
    let ok = unsafe { TX.as_mut().unwrap().send(7).is_ok() };
    unsafe { MODE = 0 };
    assert_abstract_queue(r, p, if ok { Some(7) } else { None });
    unsafe {
        kani::cover!(ok && YIELDS_USED > 0, "accepted, consumer interleaved");
        kani::cover!(!ok && r == cap, "rejected on a full ring");
    }
    // no spurious omission: if the ring had room for everything parked plus this command when the
    // call started (the consumer can only make more room), the command must be accepted
    if r + p < cap {
        assert!(ok, "send rejected although the ring had room (an omission not caused by a full queue)");
    }
}

// C01/C09: thread exit (Sender::drop) from an arbitrary valid state, consumer interleaved at every
// push, then the consumer drains until Closed.  What is received is a prefix of the accepted
// sequence, in order, without duplicates; everything if the ring had room for the overflow list.
shapes!(q_step_exit:
    q_step_exit_c1p1 = (1, 1), q_step_exit_c1p2 = (1, 2),
    q_step_exit_c2p1 = (2, 1), q_step_exit_c2p2 = (2, 2));
fn q_step_exit(cap: usize, p: usize) {
    let (_cap, r, p) = arbitrary_state(cap, p);
    let room = unsafe { p <= TX.as_ref().unwrap().tx.slots() };
    unsafe { MODE = 2 };
    unsafe { TX = None };
    unsafe { MODE = 0 };
    consumer_step();
    consumer_step();
    consumer_step();
    consumer_step();
    consumer_step();
    unsafe {
        assert!(CLOSED, "exited thread with a drained ring must report Closed");
        let n = NGOT;
        assert!(n <= r + p, "more commands received than were accepted");
        assert!(n >= r, "a command already in the ring was lost at thread exit");
        if room {
            assert!(n == r + p, "parked command lost at thread exit although the ring had room");
        }
        assert!(n < 1 || abstract_at(0) == expected_at(0, r, p, None), "order broken at thread exit (0)");
        assert!(n < 2 || abstract_at(1) == expected_at(1, r, p, None), "order broken at thread exit (1)");
        assert!(n < 3 || abstract_at(2) == expected_at(2, r, p, None), "order broken at thread exit (2)");
        assert!(n < 4 || abstract_at(3) == expected_at(3, r, p, None), "order broken at thread exit (3)");
        kani::cover!(!room, "exit with a ring too full for the overflow list");
        kani::cover!(YIELDS_USED > 0 && n == r + p && !room, "consumer made room during the exit");
    }
}

// ------------------------------------------------------------------------------------------------
// Receiver::try_recv against the MOST GENERAL producer (environment = nondeterministic stub
// constrained by the ring contract): before `pop` and before `is_abandoned` the producer pushes
// 0..=2 further values (when there is room) and may then die.  Every real Sender behaviour is one
// of these (send / force_send / Sender::drop only push, then the Producer is dropped), and each of
// these is realisable by a real Sender (send; send; thread exit), so nothing spurious is added.
static mut PROD: Option<rtrb::Producer<u8>> = None;
static mut NEXT: u8 = 1;
static mut SENT: [u8; 8] = [0; 8];
static mut NSENT: usize = 0;

fn env_push() {
    unsafe {
        if let Some(p) = PROD.as_mut() {
            if p.push(NEXT).is_ok() {
                if NSENT < 8 {
                    SENT[NSENT] = NEXT;
                }
                NSENT += 1;
            }
            NEXT += 1;
        }
    }
}

fn env_hook(tag: u8) {
    unsafe {
        if MODE == 3 && (tag == 0 || tag == 1) {
            MODE = 0;
            if kani::any() {
                env_push();
                YIELDS_USED += 1;
            }
            if kani::any() {
                env_push();
                YIELDS_USED += 1;
            }
            if kani::any() {
                PROD = None; // the producing thread exits
                YIELDS_USED += 1;
            }
            MODE = 3;
        }
    }
}

fn env_setup() -> Receiver<u8> {
    let cap: usize = kani::any();
    kani::assume(cap >= 1 && cap <= 3);
    let r: usize = kani::any();
    kani::assume(r <= cap);
    unsafe {
        rtrb::MODEL_CAPACITY = cap;
        rtrb::YIELD_HOOK = Some(env_hook);
        let (p, c) = rtrb::RingBuffer::<u8>::new(cap);
        PROD = Some(p);
        if r >= 1 {
            env_push();
        }
        if r >= 2 {
            env_push();
        }
        if r >= 3 {
            env_push();
        }
        Receiver { rx: c }
    }
}

// C01 / C08-link: one try_recv, any producer.
#[kani::proof]
#[kani::unwind(2)]
fn q_try_recv_any_producer() {
    let mut rx = env_setup();
    let had = unsafe { NSENT };
    unsafe { MODE = 3 };
    let res = rx.try_recv();
    unsafe {
        MODE = 0;
        match res {
            Err(ChannelClosed) => {
                assert!(PROD.is_none(), "Closed reported while the producer is alive");
                assert!(
                    rx.rx.model_len() == 0,
                    "Closed reported while commands are still in the ring: they are dropped with the receiver"
                );
                kani::cover!(YIELDS_USED > 0, "Closed with the producer interleaved");
            }
            Ok(Some(v)) => {
                assert!(NSENT >= 1 && v == SENT[0], "try_recv did not return the oldest command");
                kani::cover!(had == 0, "received a command pushed during the call");
            }
            Ok(None) => {
                assert!(had == 0, "Ok(None) although a command was queued before the call");
                kani::cover!(YIELDS_USED == 0, "Ok(None) on an empty ring with a live producer");
            }
        }
    }
}

// C01: three consecutive try_recv calls, any producer: what is received is a prefix of what was
// pushed, in order, without duplicates; once Closed is reported everything pushed was received.
#[kani::proof]
#[kani::unwind(2)]
fn q_try_recv_seq3_any_producer() {
    let mut rx = env_setup();
    let mut got: [u8; 3] = [0; 3];
    let mut n = 0usize;
    let mut closed = false;
    unsafe { MODE = 3 };
    match rx.try_recv() {
        Ok(Some(v)) => {
            got[n] = v;
            n += 1;
        }
        Ok(None) => {}
        Err(_) => closed = true,
    }
    if !closed {
        match rx.try_recv() {
            Ok(Some(v)) => {
                got[n] = v;
                n += 1;
            }
            Ok(None) => {}
            Err(_) => closed = true,
        }
    }
    if !closed {
        match rx.try_recv() {
            Ok(Some(v)) => {
                got[n] = v;
                n += 1;
            }
            Ok(None) => {}
            Err(_) => closed = true,
        }
    }
    unsafe {
        MODE = 0;
        assert!(n <= NSENT, "received more than was pushed");
        assert!(n < 1 || got[0] == SENT[0], "first received command is not the first pushed");
        assert!(n < 2 || got[1] == SENT[1], "second received command is not the second pushed");
        assert!(n < 3 || got[2] == SENT[2], "third received command is not the third pushed");
        if closed {
            assert!(PROD.is_none(), "Closed reported while the producer is alive");
            assert!(n == NSENT, "Closed reported before every pushed command was received");
        }
        kani::cover!(closed && n == 2 && YIELDS_USED > 2, "two received then Closed, producer interleaved");
        kani::cover!(!closed && n == 3, "three received");
    }
}

// C09: a `send` on a full ring returns Err and changes nothing else.
#[kani::proof]
#[kani::unwind(4)]
fn q_full_send_drops_only_itself() {
    let cap: usize = kani::any();
    kani::assume(cap >= 1 && cap <= 3);
    setup(cap, cap, 0);
    unsafe {
        let tx = TX.as_mut().unwrap();
        let r = tx.send(77);
        assert!(r.is_err());
        assert!(tx.pending_messages.is_empty());
        TX = None;
    }
    consumer_step();
    consumer_step();
    consumer_step();
    consumer_step();
    unsafe {
        assert!(CLOSED);
        assert!(NGOT == cap);
        assert!(GOT[0] == 200);
        assert!(cap < 2 || GOT[1] == 201);
        assert!(cap < 3 || GOT[2] == 202);
        kani::cover!(cap == 3);
    }
}

// C04/C09 scenario (no schedule, one harness per capacity): ring full; cancel(); drop(root) =
// force_send(DROP); force_send(COMMIT); the collector drains; a later send; drain; a later send;
// drain.  DROP is received right after the older commands, COMMIT right after DROP.
fn q_cancel_then_finish_on_full_ring(cap: usize, _p: usize) {
    setup(cap, cap, 0);
    unsafe {
        let tx = TX.as_mut().unwrap();
        tx.force_send(10);
        tx.force_send(11);
    }
    consumer_step();
    consumer_step();
    unsafe {
        let _ = TX.as_mut().unwrap().send(12);
    }
    consumer_step();
    consumer_step();
    unsafe {
        let _ = TX.as_mut().unwrap().send(13);
    }
    consumer_step();
    consumer_step();
    unsafe {
        let g = |i: usize| if i < NGOT { GOT[i] } else { 0 };
        assert!(g(cap) == 10, "DROP is not the first command after the older ones");
        assert!(g(cap + 1) == 11, "COMMIT does not follow DROP");
        kani::cover!(NGOT >= cap + 2, "both signals received");
    }
}
shapes!(q_cancel_then_finish_on_full_ring:
    q_cancel_then_finish_on_full_ring_c1 = (1, 0), q_cancel_then_finish_on_full_ring_c2 = (2, 0));

// C01: with a live producer and an empty ring, try_recv returns Ok(None), never Closed; with a
// dead producer and an empty ring it returns Closed.
#[kani::proof]
#[kani::unwind(4)]
fn q_empty_vs_closed() {
    setup(2, 0, 0);
    consumer_step();
    unsafe {
        assert!(!CLOSED && NGOT == 0);
        TX = None;
    }
    consumer_step();
    unsafe {
        assert!(CLOSED);
        kani::cover!(CLOSED);
    }
}

/// Helper for other harness modules: number of commands parked in the overflow list.
pub(crate) fn pending_len<T>(s: &Sender<T>) -> usize {
    s.pending_messages.len()
}
