//! Harnesses appended (as a child module) to fastrace/src/local/local_collector.rs  —  C17 / C18.
#![allow(static_mut_refs, dead_code, unused_imports)]
use super::*;
use crate::collector::SpanId;
use crate::local::local_span_line::verif_harness as sl;
use crate::local::local_span_stack::verif_harness as stk;
use crate::local::raw_span::RawKind;
use crate::local::raw_span::RawSpan;
use crate::local::span_queue::verif_harness as sq;

static N_A: &str = "a";

// C17 / C18: collecting a scope stamps the collection time (the clock reading at collection) as
// the set's end_time — whatever the shape of the recorded forest (here: a FINISHED top-level span
// followed by a top-level span that is still OPEN) — and hands back every record; open spans keep
// end_instant == ZERO so that they are closed at end_time later.
#[kani::proof]
#[kani::unwind(4)]
fn lc_collect_stamps_collection_time() {
    unsafe {
        fastant::CLOCK = kani::any();
        kani::assume(fastant::CLOCK >= 10 && fastant::CLOCK < (1u64 << 62));
        fastant::TICK = 0;
    }
    let now0 = unsafe { fastant::CLOCK };
    let b1: u64 = kani::any();
    let e1: u64 = kani::any();
    let b2: u64 = kani::any();
    kani::assume(1 <= b1 && b1 <= e1 && e1 <= b2 && b2 <= now0);
    let first_finished: bool = kani::any();
    let mut r1 = RawSpan::begin_with(SpanId(kani::any()), SpanId::default(), Instant(b1), N_A, RawKind::Span);
    if first_finished {
        r1.end_with(Instant(e1));
    }
    let r2 = RawSpan::begin_with(SpanId(kani::any()), SpanId::default(), Instant(b2), N_A, RawKind::Span);
    let open_id = r2.id;
    let stack = Rc::new(RefCell::new(LocalSpanStack::with_capacity(4)));
    let epoch: usize = kani::any();
    let handle = stk::push_line(
        &mut stack.borrow_mut(),
        sl::mk_line(epoch, None, sq::mk_queue(vec![r1, r2], 8, Some(open_id))),
    );
    let c = LocalCollector { inner: Some(LocalCollectorInner { stack: stack.clone(), span_line_handle: handle }) };
    let (set, tok) = c.collect_spans_and_token();
    let now1 = unsafe { fastant::CLOCK };
    assert!(tok.is_none());
    assert!(set.spans.len() == 2, "a record was lost at collection");
    assert!(set.end_time.0 == now1 && now1 >= now0, "end_time is not the clock reading at collection");
    assert!(set.end_time.0 >= b2, "collection time lies before the start of a recorded span");
    assert!(set.spans[1].end_instant == Instant::ZERO, "an open span was closed with a made-up instant");
    assert!(stk::depth(&stack.borrow()) == 0);
    std::mem::forget((set, stack));
    kani::cover!(first_finished);
    kani::cover!(!first_finished);
}
