//! Harnesses appended (as a child module) to fastrace/src/span.rs  —  the sender link:
//! which commands one API call on a span hands to the calling thread's queue, in which order,
//! with which token, and whether they survive a full ring.  Spans are built directly from their
//! private fields; the ring model only observes what is pushed (observe-and-discard).
#![allow(static_mut_refs, dead_code, unused_imports)]
use super::*;
use crate::collector::global_collector::verif_harness as gc;
use crate::collector::id::verif_harness as idgen;
use crate::collector::TraceId;
use crate::verif_tls as tls;

static N_A: &str = "a";
static N_EV: &str = "event";
static K1: &str = "k1";
static V1: &str = "v1";

pub(crate) fn any_item(sampled: bool) -> CollectTokenItem {
    CollectTokenItem {
        trace_id: TraceId(kani::any()),
        parent_id: SpanId(kani::any()),
        collect_id: kani::any(),
        is_root: kani::any(),
        is_sampled: sampled,
    }
}

pub(crate) fn mk_span(id: u64, begin: u64, token: CollectToken, collect_id: Option<usize>) -> Span {
    Span {
        inner: Some(SpanInner {
            raw_span: RawSpan::begin_with(SpanId(id), SpanId::default(), Instant(begin), N_A, RawKind::Span),
            collect_token: token,
            collect_id,
            collect: GlobalCollect,
        }),
    }
}

fn env() {
    tls::set_current(0);
    gc::install_observed_sender(0);
    idgen::install_symbolic_generator();
    unsafe {
        fastant::CLOCK = kani::any();
        kani::assume(fastant::CLOCK >= 1 && fastant::CLOCK < (1u64 << 62));
    }
}

/// CONTRACT STUB for `Span::enter_with_parent`, used only by the add_event / add_properties
/// harnesses: the real function (a filter_map/flat_map/collect chain) is decided on its own in
/// `sp_enter_with_parents_links` / `sp_from_span_fields`; composing it with `submit_spans` in one
/// query runs out of memory.  The stub returns what that contract says: a child of a recording
/// parent is `Span::new(<the parent's issued token>, name, None)`, a child of a no-op is a no-op.
/// Tokens of up to 2 items.
fn contract_enter_with_parent(name: impl Into<Cow<'static, str>>, parent: &Span) -> Span {
    match &parent.inner {
        Some(inner) => {
            let t = &inner.collect_token;
            let id = inner.raw_span.id;
            let iss = |it: &CollectTokenItem| CollectTokenItem {
                trace_id: it.trace_id,
                parent_id: id,
                collect_id: it.collect_id,
                is_root: false,
                is_sampled: it.is_sampled,
            };
            let token: CollectToken = if t.len() == 1 {
                vec![iss(&t[0])]
            } else if t.len() == 2 {
                vec![iss(&t[0]), iss(&t[1])]
            } else {
                Vec::new()
            };
            Span::new(token, name, None)
        }
        None => Span::noop(),
    }
}

fn issued(item: &CollectTokenItem, id: u64) -> CollectTokenItem {
    CollectTokenItem { trace_id: item.trace_id, parent_id: SpanId(id), collect_id: item.collect_id, is_root: false, is_sampled: item.is_sampled }
}

// C01 / C18: finishing a sampled ROOT pushes exactly [SubmitSpans(Span) with the span's own token,
// CommitCollect(collect id)], in that order; on a full ring the submit is the only omission and
// the commit is parked (force_send).
#[kani::proof]
#[kani::unwind(3)]
fn sp_drop_root_pushes_submit_then_commit() {
    env();
    let item = any_item(true);
    let id: u64 = kani::any();
    let begin: u64 = kani::any();
    let cid: usize = kani::any();
    let full: bool = kani::any();
    let span = mk_span(id, begin, vec![item], Some(cid));
    gc::set_ring_full(full);
    drop(span);
    let t_end = unsafe { fastant::CLOCK };
    assert!(gc::nlog() == 2, "finishing a root must hand over exactly a submit and a commit");
    let s = gc::log(0);
    let c = gc::log(1);
    assert!(s.kind == 3 && s.set_kind == 0, "first command is not SubmitSpans(Span)");
    assert!(s.ntok == 1 && s.tok0 == Some(item), "span submitted under a different token");
    assert!(s.span_id == SpanId(id) && s.span_parent == SpanId::default() && s.raw_kind == Some(RawKind::Span));
    assert!(s.begin == begin && s.end == t_end, "end instant is not the clock reading at finish");
    assert!(s.name_ptr == N_A.as_ptr() as usize && s.name_len == N_A.len());
    assert!(c.kind == 2 && c.collect_id == cid, "second command is not CommitCollect of this root");
    // full ring: only the span set may be missing, the finish signal is kept
    assert!(gc::sender_pending_len(0) == if full { 1 } else { 0 }, "finish signal not kept on a full ring");
    kani::cover!(full);
    kani::cover!(!full);
}

// C01: finishing a sampled CHILD pushes exactly one SubmitSpans(Span) and nothing else.
#[kani::proof]
#[kani::unwind(3)]
fn sp_drop_child_pushes_one_submit() {
    env();
    let a = any_item(true);
    let b = any_item(kani::any());
    let two: bool = kani::any();
    let id: u64 = kani::any();
    let tok = if two { vec![a, b] } else { vec![a] };
    let span = mk_span(id, 5, tok, None);
    drop(span);
    assert!(gc::nlog() == 1, "finishing a child must hand over exactly one submit");
    let s = gc::log(0);
    assert!(s.kind == 3 && s.set_kind == 0 && s.span_id == SpanId(id));
    if two && b.is_sampled {
        assert!(s.ntok == 2 && s.tok0 == Some(a) && s.tok1 == Some(b), "multi-parent span lost a parent");
    } else {
        assert!(s.ntok == 1 && s.tok0 == Some(a), "unsampled parent not filtered / sampled parent lost");
    }
    assert!(gc::sender_pending_len(0) == 0);
    kani::cover!(two && b.is_sampled);
    kani::cover!(two && !b.is_sampled);
}

// C05 / C16: a no-op span and a span whose parents are all unsampled hand over no span set; an
// unsampled root only force-sends its (ignored) commit.
#[kani::proof]
#[kani::unwind(3)]
fn sp_drop_unsampled_pushes_no_spans() {
    env();
    let a = any_item(false);
    let b = any_item(false);
    let root: bool = kani::any();
    let two: bool = kani::any();
    let tok = if two { vec![a, b] } else { vec![a] };
    let span = mk_span(kani::any(), 5, tok, if root { Some(NOT_SAMPLED_COLLECT_ID) } else { None });
    let ctx = SpanContext::from_span(&span).unwrap();
    assert!(!ctx.sampled && ctx.trace_id == a.trace_id, "context of an unsampled span must carry sampled=false and the trace id");
    drop(span);
    if root {
        assert!(gc::nlog() == 1 && gc::log(0).kind == 2 && gc::log(0).collect_id == NOT_SAMPLED_COLLECT_ID);
    } else {
        assert!(gc::nlog() == 0, "an unsampled span handed something to the collector");
    }
    drop(Span::noop());
    assert!(gc::nlog() == if root { 1 } else { 0 });
    kani::cover!(root && two);
    kani::cover!(!root && !two);
}

// C05 / C16: attaching an event to an unsampled span hands nothing over.
#[kani::proof]
#[kani::unwind(3)]
#[kani::stub(Span::enter_with_parent, contract_enter_with_parent)]
fn sp_unsampled_add_event_pushes_nothing() {
    env();
    let span = mk_span(kani::any(), 5, vec![any_item(false)], None);
    span.add_event(Event::new(N_EV));
    assert!(gc::nlog() == 0, "an event on an unsampled span was handed to the collector");
    std::mem::forget(span);
    kani::cover!(true);
}

// C05 / C16: attaching properties to an unsampled span hands nothing over.
#[kani::proof]
#[kani::unwind(3)]
#[kani::stub(Span::enter_with_parent, contract_enter_with_parent)]
fn sp_unsampled_add_properties_pushes_nothing() {
    env();
    let span = mk_span(kani::any(), 5, vec![any_item(false)], None);
    span.add_properties(|| [(K1, V1)]);
    assert!(gc::nlog() == 0, "properties on an unsampled span were handed to the collector");
    std::mem::forget(span);
    kani::cover!(true);
}

// C04: cancel() on a no-op or non-root span pushes nothing; on a root exactly one
// DropCollect(collect id), kept even when the ring is full; then finishing pushes submit+commit
// and the commit is parked BEHIND the drop.
#[kani::proof]
#[kani::unwind(3)]
fn sp_cancel_only_roots() {
    env();
    let item = any_item(true);
    let cid: usize = kani::any();
    let is_root: bool = kani::any();
    let full: bool = kani::any();
    let span = mk_span(kani::any(), 5, vec![item], if is_root { Some(cid) } else { None });
    gc::set_ring_full(full);
    Span::noop().cancel();
    assert!(gc::nlog() == 0);
    span.cancel();
    if is_root {
        assert!(gc::nlog() == 1, "cancel() on a root must push exactly one DropCollect");
        let d = gc::log(0);
        assert!(d.kind == 1 && d.collect_id == cid, "cancel() pushed something else than DropCollect(collect id)");
        assert!(gc::sender_pending_len(0) == if full { 1 } else { 0 }, "cancel signal not kept on a full ring");
    } else {
        assert!(gc::nlog() == 0, "cancel() on a non-root span pushed a command");
    }
    std::mem::forget(span);
    kani::cover!(is_root && full);
    kani::cover!(!is_root);
}

// C06: Span::add_event hands over one pseudo-span of kind Event under the target span:
// token = the target's issued token (parent id = the target's id), name/properties/timestamp kept.
#[kani::proof]
#[kani::unwind(3)]
#[kani::stub(Span::enter_with_parent, contract_enter_with_parent)]
fn sp_add_event_shape() {
    env();
    let item = any_item(true);
    let id: u64 = kani::any();
    let span = mk_span(id, 5, vec![item], None);
    span.add_event(Event::new(N_EV).with_properties(|| [(K1, V1)]));
    let t = unsafe { fastant::CLOCK };
    assert!(gc::nlog() == 1, "one attachment must hand over exactly one pseudo-span");
    let s = gc::log(0);
    assert!(s.kind == 3 && s.set_kind == 0);
    assert!(s.raw_kind == Some(RawKind::Event), "pseudo-span of the wrong kind");
    assert!(s.ntok == 1 && s.tok0 == Some(issued(&item, id)), "event not addressed to the target span");
    assert!(s.span_parent == SpanId::default());
    assert!(s.nprops == 1, "event properties missing");
    assert!(s.name_ptr == N_EV.as_ptr() as usize && s.name_len == N_EV.len(), "event name changed");
    assert!(s.begin == t, "event timestamp is not the clock reading at attachment");
    std::mem::forget(span);
    kani::cover!(true);
}

// C06: Span::add_properties hands over one pseudo-span of kind Properties under the target span.
#[kani::proof]
#[kani::unwind(3)]
#[kani::stub(Span::enter_with_parent, contract_enter_with_parent)]
fn sp_add_properties_shape() {
    env();
    let item = any_item(true);
    let id: u64 = kani::any();
    let span = mk_span(id, 5, vec![item], None);
    span.add_properties(|| [(K1, V1)]);
    assert!(gc::nlog() == 1, "one attachment must hand over exactly one pseudo-span");
    let s = gc::log(0);
    assert!(s.kind == 3 && s.set_kind == 0);
    assert!(s.raw_kind == Some(RawKind::Properties), "pseudo-span of the wrong kind");
    assert!(s.ntok == 1 && s.tok0 == Some(issued(&item, id)), "properties not addressed to the target span");
    assert!(s.span_parent == SpanId::default());
    assert!(s.nprops == 1, "attached properties missing");
    std::mem::forget(span);
    kani::cover!(true);
}

// C06: Span::with_properties (at creation) appends to the span's own record, in order.
#[kani::proof]
#[kani::unwind(3)]
fn sp_with_properties_appends() {
    env();
    let span = mk_span(1, 5, vec![any_item(true)], None);
    let span = span.with_property(|| (K1, V1));
    let span = span.with_properties(|| [(V1, K1)]);
    let p = span.inner.as_ref().unwrap().raw_span.properties.as_ref().unwrap();
    assert!(p.len() == 2, "property lost");
    let same = |c: &Cow<'static, str>, s: &'static str| c.as_ptr() == s.as_ptr() && c.len() == s.len();
    assert!(same(&p[0].0, K1) && same(&p[0].1, V1) && same(&p[1].0, V1) && same(&p[1].1, K1), "properties reordered or changed");
    assert!(gc::nlog() == 0);
    std::mem::forget(span);
    kani::cover!(true);
}

// C02 / C11: issue_collect_token rewrites parent_id to the issuing span's id and clears is_root;
// from_span returns (first item's trace id, the span's own id, first item's flag), also for a
// span with two parents; None for a no-op.
#[kani::proof]
#[kani::unwind(3)]
fn sp_from_span_fields() {
    env();
    let a = any_item(kani::any());
    let b = any_item(kani::any());
    let id1: u64 = kani::any();
    let two: bool = kani::any();
    let p1 = mk_span(id1, 5, if two { vec![a, b] } else { vec![a] }, None);
    let ctx = SpanContext::from_span(&p1).unwrap();
    assert!(ctx.trace_id == a.trace_id && ctx.span_id == SpanId(id1) && ctx.sampled == a.is_sampled, "from_span does not identify the span");
    assert!(SpanContext::from_span(&Span::noop()).is_none());
    let inner = p1.inner.as_ref().unwrap();
    let mut it = inner.issue_collect_token();
    assert!(it.next() == Some(issued(&a, id1)), "issued token item does not point at the issuing span");
    if two {
        assert!(it.next() == Some(issued(&b, id1)));
    }
    assert!(it.next().is_none());
    drop(it);
    std::mem::forget(p1);
    kani::cover!(two);
    kani::cover!(!two && !a.is_sampled);
}

// C02: enter_with_parents concatenates the parents' issued tokens in order, skipping no-op
// parents; the child is not a root, gets a fresh id and no raw parent.
#[kani::proof]
#[kani::unwind(4)]
fn sp_enter_with_parents_links() {
    env();
    let a = any_item(true);
    let b = any_item(true);
    let id1: u64 = kani::any();
    let id2: u64 = kani::any();
    let p1 = mk_span(id1, 5, vec![a], None);
    let p2 = mk_span(id2, 6, vec![b], None);
    let noop = Span::noop();
    let child = Span::enter_with_parents(N_A, [&p1, &noop, &p2]);
    let inner = child.inner.as_ref().unwrap();
    assert!(inner.collect_token.len() == 2, "no-op parent not skipped or parent lost");
    assert!(inner.collect_token[0] == issued(&a, id1), "child's first parent link wrong");
    assert!(inner.collect_token[1] == issued(&b, id2), "child's second parent link wrong");
    assert!(inner.collect_id.is_none());
    assert!(inner.raw_span.id.0 != 0 && inner.raw_span.parent_id == SpanId::default());
    assert!(inner.raw_span.begin_instant.0 == unsafe { fastant::CLOCK });
    std::mem::forget((p1, p2, child));
    kani::cover!(true);
}

// C11 / C16: children of no-op spans are no-ops and belong to no trace.
#[kani::proof]
#[kani::unwind(3)]
fn sp_noop_parents() {
    env();
    let noop = Span::noop();
    assert!(Span::enter_with_parent(N_A, &noop).inner.is_none());
    // what enter_with_parents builds from only no-op parents (sp_enter_with_parents_links: no-op
    // parents contribute no token item): a recording span with an EMPTY token
    let only_noop = Span::new(Vec::new(), N_A, None);
    assert!(SpanContext::from_span(&only_noop).is_none(), "span with only no-op parents belongs to no trace");
    only_noop.cancel();
    drop(only_noop);
    assert!(gc::nlog() == 0, "a span with only no-op parents handed something to the collector");
    kani::cover!(true);
}

// C05 / C11 / C16: Span::root — not recording before a reporter is installed; an unsampled context
// sends nothing at creation and gets the NOT_SAMPLED collect id; a sampled one sends exactly one
// StartCollect (droppable); the root's token copies trace id / remote parent id / flag.
#[kani::proof]
#[kani::unwind(3)]
fn sp_root_creation() {
    env();
    let ctx = SpanContext { trace_id: TraceId(kani::any()), span_id: SpanId(kani::any()), sampled: kani::any() };
    let ready: bool = kani::any();
    let next: usize = kani::any();
    kani::assume(next < usize::MAX - 4);
    gc::set_reporter_ready(ready);
    gc::set_next_collect_id(next);
    let root = Span::root(N_A, ctx);
    if !ready {
        assert!(root.inner.is_none(), "root created before a reporter is installed must not record");
        assert!(gc::nlog() == 0);
    } else {
        let inner = root.inner.as_ref().unwrap();
        let tok = inner.collect_token[0];
        assert!(inner.collect_token.len() == 1);
        assert!(tok.trace_id == ctx.trace_id && tok.parent_id == ctx.span_id && tok.is_sampled == ctx.sampled && tok.is_root);
        if ctx.sampled {
            assert!(gc::nlog() == 1 && gc::log(0).kind == 0 && gc::log(0).collect_id == next, "sampled root must announce itself with one StartCollect");
            assert!(tok.collect_id == next && inner.collect_id == Some(next));
            assert!(gc::next_collect_id() == next + 1, "collect ids must be fresh");
        } else {
            assert!(gc::nlog() == 0, "unsampled root sent a command at creation");
            assert!(tok.collect_id == NOT_SAMPLED_COLLECT_ID && inner.collect_id == Some(NOT_SAMPLED_COLLECT_ID));
        }
        let c = SpanContext::from_span(&root).unwrap();
        assert!(c.trace_id == ctx.trace_id && c.sampled == ctx.sampled && c.span_id == inner.raw_span.id);
    }
    std::mem::forget(root);
    kani::cover!(ready && ctx.sampled);
    kani::cover!(ready && !ctx.sampled);
    kani::cover!(!ready);
}

// C17: push_child_spans hands over one SubmitSpans(SharedLocalSpans(arc)) per call, the same Arc
// for every parent, under that parent's issued token; an empty set pushes nothing.
#[kani::proof]
#[kani::unwind(3)]
fn sp_push_child_spans_shape() {
    env();
    let a = any_item(true);
    let b = any_item(true);
    let id1: u64 = kani::any();
    let id2: u64 = kani::any();
    let p1 = mk_span(id1, 5, vec![a], None);
    let p2 = mk_span(id2, 6, vec![b], None);
    let empty = LocalSpans { inner: Arc::new(LocalSpansInner { spans: Vec::new(), end_time: Instant(9) }) };
    p1.push_child_spans(empty);
    assert!(gc::nlog() == 0, "an empty set must not be submitted");
    let raw = RawSpan::begin_with(SpanId(kani::any()), SpanId::default(), Instant(7), N_A, RawKind::Span);
    let set = LocalSpans { inner: Arc::new(LocalSpansInner { spans: vec![raw], end_time: Instant(9) }) };
    let ptr = Arc::as_ptr(&set.inner) as usize;
    p1.push_child_spans(set.clone());
    p2.push_child_spans(set.clone());
    assert!(gc::nlog() == 2);
    let s1 = gc::log(0);
    let s2 = gc::log(1);
    assert!(s1.kind == 3 && s1.set_kind == 2 && s2.kind == 3 && s2.set_kind == 2);
    assert!(s1.set_ptr == ptr && s2.set_ptr == ptr, "parents received different copies of the set");
    assert!(s1.ntok == 1 && s1.tok0 == Some(issued(&a, id1)), "set attached under the wrong parent (1)");
    assert!(s2.ntok == 1 && s2.tok0 == Some(issued(&b, id2)), "set attached under the wrong parent (2)");
    assert!(s1.nspans == 1 && s1.end_time == 9);
    std::mem::forget((p1, p2, set));
    kani::cover!(true);
}

// C18: elapsed() = now - begin for a recording span, None for a no-op.
#[kani::proof]
#[kani::unwind(3)]
fn sp_elapsed() {
    env();
    unsafe { kani::assume(fastant::CLOCK < (1u64 << 31)) }; // elapsed < 2^31 ns: a 64-bit division by 10^9 over the full range does not finish
    let begin: u64 = kani::any();
    kani::assume(begin <= unsafe { fastant::CLOCK });
    let span = mk_span(1, begin, vec![any_item(true)], None);
    let e = span.elapsed().unwrap();
    let now = unsafe { fastant::CLOCK };
    assert!(e == Duration::from_nanos(now - begin), "elapsed() is not the monotonic time since the span started");
    assert!(Span::noop().elapsed().is_none());
    std::mem::forget(span);
    kani::cover!(e.as_nanos() > 100);
}

use crate::local::local_span_stack::verif_harness as stk;

// C01 / C10 / C13: set_local_parent opens a scope under the span's issued token on the given
// stack; dropping the guard closes it and hands over exactly one SubmitSpans(LocalSpansInner)
// under that token (here with nothing recorded), restoring the stack depth.
#[kani::proof]
#[kani::unwind(3)]
fn sp_guard_drop_pushes_local_spans() {
    env();
    let item = any_item(kani::any());
    let id: u64 = kani::any();
    let span = mk_span(id, 5, vec![item], None);
    let stack = Rc::new(RefCell::new(LocalSpanStack::with_capacity(4)));
    let g = span.attach_into_stack(&stack);
    assert!(stk::depth(&stack.borrow()) == 1, "set_local_parent did not open a scope");
    let ctx = stk::context(&stack.borrow());
    assert!(ctx.2 == Some(SpanId(id)), "the span is not the local parent inside its scope");
    assert!(gc::nlog() == 0);
    drop(g);
    let t_end = unsafe { fastant::CLOCK };
    assert!(stk::depth(&stack.borrow()) == 0, "dropping the guard did not close the scope");
    if item.is_sampled {
        assert!(gc::nlog() == 1, "closing a local-parent scope must hand over exactly one local span set");
        let s = gc::log(0);
        assert!(s.kind == 3 && s.set_kind == 1, "not a SubmitSpans(LocalSpansInner)");
        assert!(s.ntok == 1 && s.tok0 == Some(issued(&item, id)), "local spans submitted under a different parent");
        assert!(s.nspans == 0 && s.end_time == t_end);
    } else {
        assert!(gc::nlog() == 0, "a scope of an unsampled trace handed something to the collector");
    }
    std::mem::forget((span, stack));
    kani::cover!(item.is_sampled);
    kani::cover!(!item.is_sampled);
}

// C07 / C09: set_local_parent when the thread's scope limit is reached returns a guard whose drop
// must be harmless (nothing recorded, nothing pushed, no panic).
#[kani::proof]
#[kani::unwind(3)]
fn sp_guard_when_stack_full() {
    env();
    let span = mk_span(kani::any(), 5, vec![any_item(true)], None);
    let stack = Rc::new(RefCell::new(LocalSpanStack::with_capacity(0)));
    let g = span.attach_into_stack(&stack);
    assert!(stk::depth(&stack.borrow()) == 0);
    drop(g);
    assert!(gc::nlog() == 0, "a refused scope handed something to the collector");
    std::mem::forget((span, stack));
    kani::cover!(true);
}

// C16 / C10: set_local_parent on a no-op span opens no scope.
#[kani::proof]
#[kani::unwind(3)]
fn sp_noop_set_local_parent() {
    env();
    let stack = Rc::new(RefCell::new(LocalSpanStack::with_capacity(4)));
    let g = Span::noop().attach_into_stack(&stack);
    assert!(stk::depth(&stack.borrow()) == 0, "a no-op span opened a scope");
    drop(g);
    assert!(gc::nlog() == 0);
    std::mem::forget(stack);
    kani::cover!(true);
}
