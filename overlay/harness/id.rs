//! Harnesses appended (as a child module) to fastrace/src/collector/id.rs.
#![allow(unused_imports, dead_code)]
use super::*;
use crate::verif_tls as tls;

/// Shared helper: the id generator of the current virtual thread in an arbitrary state.  The zero
/// id (prefix 0 AND a counter about to wrap) is assumed away: it needs 2^32 ids on one thread whose
/// random prefix is 0 (stated in not_covered).
pub(crate) fn install_symbolic_generator() {
    let prefix: u32 = kani::any();
    let counter: u32 = kani::any();
    kani::assume(prefix != 0 || counter < u32::MAX - 64);
    LOCAL_ID_GENERATOR.install(tls::current(), Cell::new((prefix, counter)));
}

pub(crate) fn install_generator(prefix: u32, counter: u32) {
    LOCAL_ID_GENERATOR.install(tls::current(), Cell::new((prefix, counter)));
}

/// C02: from any generator state, two successive ids are `prefix<<32 | counter+1`, `counter+2`
/// (wrapping), hence distinct; an id is zero only if prefix = 0 and the counter wraps to 0.
#[kani::proof]
fn next_id_step() {
    let prefix: u32 = kani::any();
    let counter: u32 = kani::any();
    LOCAL_ID_GENERATOR.install(0, Cell::new((prefix, counter)));
    let a = SpanId::next_id();
    let b = SpanId::next_id();
    assert_eq!(a.0, ((prefix as u64) << 32) | counter.wrapping_add(1) as u64);
    assert_eq!(b.0, ((prefix as u64) << 32) | counter.wrapping_add(2) as u64);
    assert_ne!(a, b);
    assert!(a.0 != 0 || (prefix == 0 && counter == u32::MAX));
    let (p2, c2) = LOCAL_ID_GENERATOR.peek(0).unwrap().get();
    assert!(p2 == prefix && c2 == counter.wrapping_add(2));
    kani::cover!(a.0 == 0, "zero id reachable only at prefix 0 and wrap");
    kani::cover!(counter == u32::MAX - 1, "wrap between the two ids");
}

// ------------------------------------------------------------------------------------------------
// C12: text codecs.
use std::fmt::Write as _;

/// Stub for `alloc::fmt::format` (identical output, no size estimation pass).
pub(crate) fn format_stub(args: std::fmt::Arguments<'_>) -> String {
    let mut s = String::with_capacity(64);
    let _ = s.write_fmt(args);
    s
}

/// Stub for `core::slice::memchr::memchr` (identical result, no word-at-a-time tricks).
pub(crate) fn memchr_stub(x: u8, text: &[u8]) -> Option<usize> {
    let mut i = 0;
    while i < text.len() {
        if text[i] == x {
            return Some(i);
        }
        i += 1;
    }
    None
}

fn hex_digit(n: u8) -> u8 {
    if n < 10 { b'0' + n } else { b'a' + (n - 10) }
}

// encode: for EVERY context the string is 55 bytes, `00-`, dashes at 35 and 52, every hex position
// (symbolic index) is the corresponding nibble in lowercase, flags `00` / `01`.
#[kani::proof]
#[kani::unwind(70)]
#[kani::stub(alloc::fmt::format, format_stub)]
fn c12_encode_shape() {
    let ctx = SpanContext { trace_id: TraceId(kani::any()), span_id: SpanId(kani::any()), sampled: kani::any() };
    let s = ctx.encode_w3c_traceparent();
    let b = s.as_bytes();
    assert!(b.len() == 55, "encoded traceparent is not 55 characters");
    assert!(b[0] == b'0' && b[1] == b'0' && b[2] == b'-' && b[35] == b'-' && b[52] == b'-');
    let i: usize = kani::any();
    kani::assume(i < 32);
    let nib = ((ctx.trace_id.0 >> (4 * (31 - i))) & 0xf) as u8;
    assert!(b[3 + i] == hex_digit(nib), "trace id hex digit wrong");
    let j: usize = kani::any();
    kani::assume(j < 16);
    let nib = ((ctx.span_id.0 >> (4 * (15 - j))) & 0xf) as u8;
    assert!(b[36 + j] == hex_digit(nib), "span id hex digit wrong");
    assert!(b[53] == b'0' && b[54] == if ctx.sampled { b'1' } else { b'0' }, "flags field wrong");
    std::mem::forget(s);
    kani::cover!(ctx.sampled && ctx.trace_id.0 >> 127 == 1);
}

/// Reference parser (25 lines): exactly four '-'-separated fields, first "00", the others accepted
/// by Rust's radix-16 integer grammar (optional leading '+', at least one hex digit, any case) and
/// fitting u128 / u64 / u8; sampled = flags & 1.
fn ref_hex(f: &[u8], max_bits: u32) -> Option<u128> {
    let f = if !f.is_empty() && f[0] == b'+' { &f[1..] } else { f };
    if f.is_empty() {
        return None;
    }
    let mut v: u128 = 0;
    let mut i = 0;
    while i < f.len() {
        let c = f[i];
        let d = match c {
            b'0'..=b'9' => c - b'0',
            b'a'..=b'f' => c - b'a' + 10,
            b'A'..=b'F' => c - b'A' + 10,
            _ => return None,
        };
        if max_bits < 128 && (v << 4 | d as u128) >> max_bits != 0 {
            return None;
        }
        if max_bits == 128 && v >> 124 != 0 {
            return None;
        }
        v = v << 4 | d as u128;
        i += 1;
    }
    Some(v)
}

fn ref_decode(b: &[u8]) -> Option<(u128, u64, bool)> {
    let mut cuts = [0usize; 3];
    let mut n = 0;
    let mut i = 0;
    while i < b.len() {
        if b[i] == b'-' {
            if n == 3 {
                return None;
            }
            cuts[n] = i;
            n += 1;
        }
        i += 1;
    }
    if n != 3 {
        return None;
    }
    let f0 = &b[..cuts[0]];
    if !(f0.len() == 2 && f0[0] == b'0' && f0[1] == b'0') {
        return None;
    }
    let t = ref_hex(&b[cuts[0] + 1..cuts[1]], 128)?;
    let s = ref_hex(&b[cuts[1] + 1..cuts[2]], 64)?;
    let f = ref_hex(&b[cuts[2] + 1..], 8)?;
    Some((t, s as u64, f & 1 == 1))
}

fn check_decode_against_reference(bytes: &[u8]) {
    let s = unsafe { std::str::from_utf8_unchecked(bytes) };
    let got = SpanContext::decode_w3c_traceparent(s);
    let exp = ref_decode(bytes);
    match (got, exp) {
        (None, None) => {}
        (Some(g), Some((t, sp, fl))) => {
            assert!(g.trace_id.0 == t && g.span_id.0 == sp && g.sampled == fl, "decoded fields differ from the reference parser");
        }
        (Some(_), None) => panic!("malformed traceparent accepted"),
        (None, Some(_)) => panic!("well-formed traceparent rejected"),
    }
}

// decode: EVERY ASCII string of length <= 4: never panics, result equals the reference parser.
#[kani::proof]
#[kani::unwind(6)]
#[kani::stub(core::slice::memchr::memchr, memchr_stub)]
fn c12_decode_ascii_le4() {
    let buf: [u8; 4] = kani::any();
    let len: usize = kani::any();
    kani::assume(len <= 4);
    kani::assume(buf[0] < 128 && buf[1] < 128 && buf[2] < 128 && buf[3] < 128);
    check_decode_against_reference(&buf[..len]);
    kani::cover!(len == 4);
}

// decode: field-shaped inputs `00-H1-H2-H3H4` (thorough: `00-H1H2-H3H4-H5H6`) with every Hi an
// arbitrary ASCII byte other than '-': accepted iff all are hex digits (or a leading '+'), values
// as the reference parser says, `10` -> unsampled.
fn decode_fields(l1: usize, l2: usize, l3: usize) {
    let h: [u8; 6] = kani::any();
    let mut buf = [0u8; 12];
    buf[0] = b'0';
    buf[1] = b'0';
    buf[2] = b'-';
    let mut n = 3;
    let mut k = 0;
    while k < 6 {
        kani::assume(h[k] < 128 && h[k] != b'-');
        k += 1;
    }
    k = 0;
    while k < l1 {
        buf[n] = h[k];
        n += 1;
        k += 1;
    }
    buf[n] = b'-';
    n += 1;
    k = 0;
    while k < l2 {
        buf[n] = h[2 + k];
        n += 1;
        k += 1;
    }
    buf[n] = b'-';
    n += 1;
    k = 0;
    while k < l3 {
        buf[n] = h[4 + k];
        n += 1;
        k += 1;
    }
    check_decode_against_reference(&buf[..n]);
    let s = unsafe { std::str::from_utf8_unchecked(&buf[..n]) };
    kani::cover!(SpanContext::decode_w3c_traceparent(s).is_some(), "some field-shaped input decodes");
    kani::cover!(SpanContext::decode_w3c_traceparent(s).is_none(), "some field-shaped input is rejected");
}

#[kani::proof]
#[kani::unwind(13)]
#[kani::stub(core::slice::memchr::memchr, memchr_stub)]
fn c12_decode_fields_112() {
    decode_fields(1, 1, 2);
}

#[kani::proof]
#[kani::unwind(13)]
#[kani::stub(core::slice::memchr::memchr, memchr_stub)]
fn c12_decode_fields_222() {
    decode_fields(2, 2, 2);
}

// decode: the flags field (0..=3 bytes) and the version field (2 bytes) on their own: `00-a-b-XYZ`
// and `VW-a-b-01` with X, Y, Z / V, W arbitrary ASCII bytes (including '-', which changes the number of fields): accepted
// iff the reference parser accepts, sampled = lowest bit of the flags value, only version 00.
// (a symbolic field LENGTH in one query did not finish in 10 min; one query per length does)
#[kani::proof]
#[kani::unwind(12)]
#[kani::stub(core::slice::memchr::memchr, memchr_stub)]
fn c12_decode_flags1() {
    let mut buf: [u8; 8] = *b"00-a-b-0";
    let x: u8 = kani::any();
    kani::assume(x < 128);
    buf[7] = x;
    check_decode_against_reference(&buf);
    check_decode_against_reference(&buf[..7]); // empty flags field
    kani::cover!(x == b'1', "one-digit flags field: accepted, sampled");
    kani::cover!(x == b'g');
}

#[kani::proof]
#[kani::unwind(12)]
#[kani::stub(core::slice::memchr::memchr, memchr_stub)]
fn c12_decode_flags2() {
    let mut buf: [u8; 9] = *b"00-a-b-00";
    let x: u8 = kani::any();
    let y: u8 = kani::any();
    kani::assume(x < 128 && y < 128);
    buf[7] = x;
    buf[8] = y;
    check_decode_against_reference(&buf);
    kani::cover!(x == b'f' && y == b'e', "flags fe: accepted, unsampled");
    kani::cover!(x == b'0' && y == b'3', "flags 03: accepted, sampled");
    kani::cover!(x == b'-', "a fifth field");
}

#[kani::proof]
#[kani::unwind(13)]
#[kani::stub(core::slice::memchr::memchr, memchr_stub)]
fn c12_decode_flags3() {
    let mut buf: [u8; 10] = *b"00-a-b-000";
    let x: u8 = kani::any();
    let y: u8 = kani::any();
    let z: u8 = kani::any();
    kani::assume(x < 128 && y < 128 && z < 128);
    buf[7] = x;
    buf[8] = y;
    buf[9] = z;
    check_decode_against_reference(&buf);
    kani::cover!(x == b'1' && y == b'0' && z == b'1', "flags 101 does not fit a byte");
    kani::cover!(x == b'0' && y == b'0' && z == b'1', "flags 001: accepted");
    kani::cover!(y == b'-', "a fifth field");
}

#[kani::proof]
#[kani::unwind(12)]
#[kani::stub(core::slice::memchr::memchr, memchr_stub)]
fn c12_decode_version2() {
    let mut buf: [u8; 9] = *b"00-a-b-01";
    let v: u8 = kani::any();
    let w: u8 = kani::any();
    kani::assume(v < 128 && w < 128);
    buf[0] = v;
    buf[1] = w;
    check_decode_against_reference(&buf);
    kani::cover!(v == b'0' && w == b'0');
    kani::cover!(v == b'0' && w == b'1', "version 01 is rejected");
}

// decode: a VALID header with a 17-digit trace id in which ONE byte (symbolic position) is
// replaced by an arbitrary ASCII byte: result equals the reference parser (every single-byte
// corruption: a '+', a 'g', an upper-case digit, a '-' anywhere).  The canonical 55-byte header
// is out of reach (7.1 M steps, out of memory at 24 GB); 17 digits is the shortest field longer
// than a u64.
#[kani::proof]
#[kani::unwind(26)]
#[kani::stub(core::slice::memchr::memchr, memchr_stub)]
fn c12_decode_one_corrupted_byte() {
    let mut buf: [u8; 24] = *b"00-0af7651916cd43dd8-b-1";
    let i: usize = kani::any();
    kani::assume(i < 24);
    let b: u8 = kani::any();
    kani::assume(b < 128);
    buf[i] = b;
    check_decode_against_reference(&buf);
    kani::cover!(i == 4 && b == b'+', "a '+' inside the trace id");
    kani::cover!(b == b'-' && i == 10);
}

// Display of TraceId / SpanId through write! into a pre-sized String: 32 / 16 lowercase hex digits
// (symbolic position), for all values.
#[kani::proof]
#[kani::unwind(40)]
fn c12_id_display() {
    let t = TraceId(kani::any());
    let s = SpanId(kani::any());
    let mut a = String::with_capacity(40);
    let _ = write!(a, "{}", t);
    let mut b = String::with_capacity(40);
    let _ = write!(b, "{}", s);
    assert!(a.len() == 32 && b.len() == 16, "id text is not fixed width");
    let i: usize = kani::any();
    kani::assume(i < 32);
    assert!(a.as_bytes()[i] == hex_digit(((t.0 >> (4 * (31 - i))) & 0xf) as u8), "trace id digit wrong");
    let j: usize = kani::any();
    kani::assume(j < 16);
    assert!(b.as_bytes()[j] == hex_digit(((s.0 >> (4 * (15 - j))) & 0xf) as u8), "span id digit wrong");
    std::mem::forget((a, b));
    kani::cover!(true);
}

// FromStr of SpanId / TraceId on every ASCII string of <= 3 bytes equals the reference grammar.
#[kani::proof]
#[kani::unwind(5)]
fn c12_id_fromstr_short() {
    let buf: [u8; 3] = kani::any();
    let len: usize = kani::any();
    kani::assume(len <= 3 && buf[0] < 128 && buf[1] < 128 && buf[2] < 128);
    let s = unsafe { std::str::from_utf8_unchecked(&buf[..len]) };
    let sp = s.parse::<SpanId>().ok().map(|x| x.0 as u128);
    let tr = s.parse::<TraceId>().ok().map(|x| x.0);
    let r = ref_hex(&buf[..len], 64);
    assert!(sp == r && tr == r, "FromStr differs from the radix-16 grammar");
    kani::cover!(r.is_some() && len == 3);
}
