//! Harnesses appended (as a child module) to fastrace/src/collector/id.rs.
#![allow(unused_imports, dead_code)]
use super::*;
use crate::verif_tls as tls;

/// Shared helper: the id generator of the current virtual thread in an arbitrary state.  The zero
/// id (prefix 0 AND a counter about to wrap) is assumed away: it needs 2^32 ids on one thread whose
/// random prefix is 0 (stated in not_covered).
pub(crate) fn install_symbolic_generator() {
    let prefix: u32 = kani::any();
    let counter: u32 = kani::any();
    kani::assume(prefix != 0 || counter < u32::MAX - 64);
    LOCAL_ID_GENERATOR.install(tls::current(), Cell::new((prefix, counter)));
}

pub(crate) fn install_generator(prefix: u32, counter: u32) {
    LOCAL_ID_GENERATOR.install(tls::current(), Cell::new((prefix, counter)));
}

/// C02: from any generator state, two successive ids are `prefix<<32 | counter+1`, `counter+2`
/// (wrapping), hence distinct; an id is zero only if prefix = 0 and the counter wraps to 0.
#[kani::proof]
fn next_id_step() {
    let prefix: u32 = kani::any();
    let counter: u32 = kani::any();
    LOCAL_ID_GENERATOR.install(0, Cell::new((prefix, counter)));
    let a = SpanId::next_id();
    let b = SpanId::next_id();
    assert_eq!(a.0, ((prefix as u64) << 32) | counter.wrapping_add(1) as u64);
    assert_eq!(b.0, ((prefix as u64) << 32) | counter.wrapping_add(2) as u64);
    assert_ne!(a, b);
    assert!(a.0 != 0 || (prefix == 0 && counter == u32::MAX));
    let (p2, c2) = LOCAL_ID_GENERATOR.peek(0).unwrap().get();
    assert!(p2 == prefix && c2 == counter.wrapping_add(2));
    kani::cover!(a.0 == 0, "zero id reachable only at prefix 0 and wrap");
    kani::cover!(counter == u32::MAX - 1, "wrap between the two ids");
}
