//! Harness support appended (as a child module) to fastrace/src/collector/global_collector.rs:
//! access to the private per-thread command sender and an observer for what is pushed to it.
#![allow(static_mut_refs, dead_code, unused_imports)]
use super::*;
use crate::verif_tls as tls;

/// What one pushed `CollectCommand` looked like (copied out by the ring model's push hook).
#[derive(Copy, Clone)]
pub(crate) struct Rec {
    /// 0 StartCollect, 1 DropCollect, 2 CommitCollect, 3 SubmitSpans
    pub kind: u8,
    pub collect_id: usize,
    /// 0 Span, 1 LocalSpansInner, 2 SharedLocalSpans
    pub set_kind: u8,
    pub ntok: usize,
    pub tok0: Option<crate::collector::CollectTokenItem>,
    pub tok1: Option<crate::collector::CollectTokenItem>,
    pub span_id: SpanId,
    pub span_parent: SpanId,
    pub raw_kind: Option<RawKind>,
    pub begin: u64,
    pub end: u64,
    pub name_ptr: usize,
    pub name_len: usize,
    pub nprops: usize,
    pub nspans: usize,
    pub set_ptr: usize,
    pub end_time: u64,
    /// the ring reported "full" for this push
    pub rejected: bool,
}

const EMPTY: Rec = Rec {
    kind: 255, collect_id: 0, set_kind: 255, ntok: 0, tok0: None, tok1: None, span_id: SpanId(0),
    span_parent: SpanId(0), raw_kind: None, begin: 0, end: 0, name_ptr: 0, name_len: 0, nprops: 0,
    nspans: 0, set_ptr: 0, end_time: 0, rejected: false,
};

pub(crate) const MAXLOG: usize = 6;
pub(crate) static mut LOG: [Rec; MAXLOG] = [EMPTY; MAXLOG];
pub(crate) static mut NLOG: usize = 0;
/// When true the ring reports "full" to every push (send drops, force_send parks).
pub(crate) static mut RING_FULL: bool = false;

fn name_of(c: &Cow<'static, str>) -> (usize, usize) {
    (c.as_ptr() as usize, c.len())
}

fn observe(p: *const ()) -> bool {
    unsafe {
        let cmd = &*(p as *const CollectCommand);
        let mut r = EMPTY;
        match cmd {
            CollectCommand::StartCollect(c) => {
                r.kind = 0;
                r.collect_id = c.collect_id;
            }
            CollectCommand::DropCollect(c) => {
                r.kind = 1;
                r.collect_id = c.collect_id;
            }
            CollectCommand::CommitCollect(c) => {
                r.kind = 2;
                r.collect_id = c.collect_id;
            }
            CollectCommand::SubmitSpans(s) => {
                r.kind = 3;
                r.ntok = s.collect_token.len();
                r.tok0 = s.collect_token.first().copied();
                r.tok1 = if s.collect_token.len() > 1 { Some(s.collect_token[1]) } else { None };
                match &s.spans {
                    SpanSet::Span(raw) => {
                        r.set_kind = 0;
                        r.span_id = raw.id;
                        r.span_parent = raw.parent_id;
                        r.raw_kind = Some(raw.raw_kind);
                        r.begin = raw.begin_instant.0;
                        r.end = raw.end_instant.0;
                        let (a, b) = name_of(&raw.name);
                        r.name_ptr = a;
                        r.name_len = b;
                        r.nprops = match &raw.properties {
                            Some(p) => p.len(),
                            None => usize::MAX,
                        };
                        r.nspans = 1;
                    }
                    SpanSet::LocalSpansInner(l) => {
                        r.set_kind = 1;
                        r.nspans = l.spans.len();
                        r.end_time = l.end_time.0;
                        if let Some(s0) = l.spans.first() {
                            r.span_id = s0.id;
                            r.span_parent = s0.parent_id;
                        }
                    }
                    SpanSet::SharedLocalSpans(a) => {
                        r.set_kind = 2;
                        r.nspans = a.spans.len();
                        r.set_ptr = Arc::as_ptr(a) as usize;
                        r.end_time = a.end_time.0;
                    }
                }
            }
        }
        r.rejected = RING_FULL;
        if NLOG < MAXLOG {
            LOG[NLOG] = r;
        }
        NLOG += 1;
        !RING_FULL
    }
}

/// Install a command sender for virtual thread `t` whose ring only observes what is pushed
/// (observe-and-discard mode of the ring model).  No receiver is registered.
pub(crate) fn install_observed_sender(t: usize) {
    unsafe {
        rtrb::PUSH_HOOK = Some(observe);
    }
    let (tx, rx) = spsc::bounded::<CollectCommand>(4);
    std::mem::forget(rx);
    COMMAND_SENDER.install(t, UnsafeCell::new(tx));
}

pub(crate) fn set_reporter_ready(v: bool) {
    REPORTER_READY.store(v, Ordering::Relaxed);
}

pub(crate) fn set_next_collect_id(v: usize) {
    NEXT_COLLECT_ID.store(v, Ordering::Relaxed);
}

pub(crate) fn next_collect_id() -> usize {
    NEXT_COLLECT_ID.load(Ordering::Relaxed)
}

pub(crate) fn destroy_sender(t: usize) {
    COMMAND_SENDER.mark_destroyed(t);
}

pub(crate) fn sender_state(t: usize) -> tls::SlotState {
    COMMAND_SENDER.state_of(t)
}

pub(crate) fn nlog() -> usize {
    unsafe { NLOG }
}
pub(crate) fn log(i: usize) -> Rec {
    unsafe { LOG[i] }
}
pub(crate) fn set_ring_full(v: bool) {
    unsafe { RING_FULL = v }
}

/// Number of commands parked by force_send on virtual thread `t` (they survive a full ring).
pub(crate) fn sender_pending_len(t: usize) -> usize {
    match COMMAND_SENDER.peek(t) {
        Some(cell) => crate::util::spsc::verif_harness::pending_len(unsafe { &*cell.get() }),
        None => 0,
    }
}

// ------------------------------------------------------------------------------------------------
// C17 / C18 / C02: LocalSpansInner::to_span_records = amend_local_span + mount_danglings, the
// conversion the collector also uses for local span sets.  A set of two spans without events or
// properties (the dangling map stays empty): a finished span followed by a span that was still
// open at collection.
fn random_state_stub() -> std::hash::RandomState {
    unsafe { std::mem::zeroed() }
}

#[kani::proof]
#[kani::unwind(4)]
#[kani::stub(std::hash::RandomState::new, random_state_stub)]
fn gc_to_span_records_finished_then_open() {
    static N_A: &str = "a";
    static N_B: &str = "bb";
    unsafe {
        fastant::CLOCK = kani::any();
        kani::assume(fastant::CLOCK >= 10 && fastant::CLOCK < (1u64 << 40));
        fastant::ANCHOR_UNIX = 1u64 << 60;
    }
    let now = unsafe { fastant::CLOCK };
    let (b1, e1, b2, et): (u64, u64, u64, u64) = (kani::any(), kani::any(), kani::any(), kani::any());
    kani::assume(1 <= b1 && b1 <= e1 && e1 <= b2 && b2 <= et && et <= now);
    let i1 = SpanId(kani::any());
    let i2 = SpanId(kani::any());
    let nested: bool = kani::any();
    kani::assume(i1 != SpanId::default());
    let mut r1 = RawSpan::begin_with(i1, SpanId::default(), Instant(b1), N_A, RawKind::Span);
    r1.end_with(Instant(e1));
    let r2 = RawSpan::begin_with(i2, if nested { i1 } else { SpanId::default() }, Instant(b2), N_B, RawKind::Span);
    let set = LocalSpansInner { spans: vec![r1, r2], end_time: Instant(et) };
    let ctx = SpanContext { trace_id: TraceId(kani::any()), span_id: SpanId(kani::any()), sampled: true };
    let recs = set.to_span_records(ctx);
    assert!(recs.len() == 2, "one record per local span");
    let unix = |x: u64| (1u64 << 60) - (now - x);
    // C02: trace id stamped, set roots get the context's span as parent, others keep theirs
    assert!(recs[0].trace_id == ctx.trace_id && recs[1].trace_id == ctx.trace_id);
    assert!(recs[0].span_id == i1 && recs[1].span_id == i2);
    assert!(recs[0].parent_id == ctx.span_id, "a top-level local span must hang under the given parent");
    assert!(recs[1].parent_id == if nested { i1 } else { ctx.span_id }, "nested local span lost its parent / root not re-parented");
    // C18: begin = converted start instant, duration = finish - start
    assert!(recs[0].begin_time_unix_ns == unix(b1) && recs[0].duration_ns == e1 - b1, "finished span: begin/duration wrong");
    // C17 / C18: a span still open at collection is closed at the collection time
    assert!(recs[1].begin_time_unix_ns == unix(b2), "open span: begin wrong");
    assert!(recs[1].duration_ns == et - b2, "a span still open at collection must be closed at the collection time");
    assert!(recs[0].name.as_ptr() == N_A.as_ptr() && recs[1].name.len() == 2);
    assert!(recs[0].properties.is_empty() && recs[0].events.is_empty());
    std::mem::forget((recs, set));
    kani::cover!(nested);
    kani::cover!(!nested && et > b2 + 1000);
}

// ------------------------------------------------------------------------------------------------
// NOT REGISTERED: symbolic execution does not finish in 25 min (drop glue / iterator loops of
// SpanCollection); kept for a stronger engine.
// C02 / C18 (a first piece of the collector's conversion): postprocess_span_collection on ONE
// thread-safe span (amend_span) followed by ONE local span set (amend_local_span), no events or
// properties (the dangling map stays empty): trace id and parent stamped from the token, span id
// kept, begin converted, duration = end - begin.
#[kani::proof]
#[kani::unwind(4)]
#[kani::stub(std::hash::RandomState::new, random_state_stub)]
fn gc_postprocess_span_then_local_set() {
    static N_A: &str = "a";
    unsafe {
        fastant::CLOCK = kani::any();
        kani::assume(fastant::CLOCK >= 10 && fastant::CLOCK < (1u64 << 40));
        fastant::ANCHOR_UNIX = 1u64 << 60;
    }
    let now = unsafe { fastant::CLOCK };
    let (b1, e1, b2, e2): (u64, u64, u64, u64) = (kani::any(), kani::any(), kani::any(), kani::any());
    kani::assume(1 <= b1 && b1 <= e1 && e1 <= now && 1 <= b2 && b2 <= e2 && e2 <= now);
    let i1 = SpanId(kani::any());
    let i2 = SpanId(kani::any());
    let mut r1 = RawSpan::begin_with(i1, SpanId::default(), Instant(b1), N_A, RawKind::Span);
    r1.end_with(Instant(e1));
    let mut r2 = RawSpan::begin_with(i2, SpanId::default(), Instant(b2), N_A, RawKind::Span);
    r2.end_with(Instant(e2));
    let (t1, p1, t2, p2) = (TraceId(kani::any()), SpanId(kani::any()), TraceId(kani::any()), SpanId(kani::any()));
    let cols = [
        SpanCollection::Owned { spans: SpanSet::Span(r1), trace_id: t1, parent_id: p1 },
        SpanCollection::Owned {
            spans: SpanSet::LocalSpansInner(LocalSpansInner { spans: vec![r2], end_time: Instant(now) }),
            trace_id: t2,
            parent_id: p2,
        },
    ];
    let anchor = Anchor::new();
    let mut recs: Vec<SpanRecord> = Vec::new();
    let mut dang = HashMap::new();
    postprocess_span_collection(cols, &anchor, &mut recs, &mut dang);
    let unix = |x: u64| (1u64 << 60) - (now - x);
    assert!(recs.len() == 2, "one record per span");
    assert!(recs[0].trace_id == t1 && recs[0].span_id == i1 && recs[0].parent_id == p1, "thread-safe span: trace/parent not taken from its token");
    assert!(recs[0].begin_time_unix_ns == unix(b1) && recs[0].duration_ns == e1 - b1, "thread-safe span: begin/duration wrong");
    assert!(recs[1].trace_id == t2 && recs[1].span_id == i2 && recs[1].parent_id == p2, "local span: trace/parent not taken from its token");
    assert!(recs[1].begin_time_unix_ns == unix(b2) && recs[1].duration_ns == e2 - b2, "local span: begin/duration wrong");
    std::mem::forget((recs, dang));
    kani::cover!(t1 != t2);
}
