//! Harness support appended (as a child module) to fastrace/src/collector/global_collector.rs:
//! access to the private per-thread command sender and an observer for what is pushed to it.
#![allow(static_mut_refs, dead_code, unused_imports)]
use super::*;
use crate::verif_tls as tls;

/// What one pushed `CollectCommand` looked like (copied out by the ring model's push hook).
#[derive(Copy, Clone)]
pub(crate) struct Rec {
    /// 0 StartCollect, 1 DropCollect, 2 CommitCollect, 3 SubmitSpans
    pub kind: u8,
    pub collect_id: usize,
    /// 0 Span, 1 LocalSpansInner, 2 SharedLocalSpans
    pub set_kind: u8,
    pub ntok: usize,
    pub tok0: Option<crate::collector::CollectTokenItem>,
    pub tok1: Option<crate::collector::CollectTokenItem>,
    pub span_id: SpanId,
    pub span_parent: SpanId,
    pub raw_kind: Option<RawKind>,
    pub begin: u64,
    pub end: u64,
    pub name_ptr: usize,
    pub name_len: usize,
    pub nprops: usize,
    pub nspans: usize,
    pub set_ptr: usize,
    pub end_time: u64,
    /// the ring reported "full" for this push
    pub rejected: bool,
}

const EMPTY: Rec = Rec {
    kind: 255, collect_id: 0, set_kind: 255, ntok: 0, tok0: None, tok1: None, span_id: SpanId(0),
    span_parent: SpanId(0), raw_kind: None, begin: 0, end: 0, name_ptr: 0, name_len: 0, nprops: 0,
    nspans: 0, set_ptr: 0, end_time: 0, rejected: false,
};

pub(crate) const MAXLOG: usize = 6;
pub(crate) static mut LOG: [Rec; MAXLOG] = [EMPTY; MAXLOG];
pub(crate) static mut NLOG: usize = 0;
/// When true the ring reports "full" to every push (send drops, force_send parks).
pub(crate) static mut RING_FULL: bool = false;

fn name_of(c: &Cow<'static, str>) -> (usize, usize) {
    (c.as_ptr() as usize, c.len())
}

fn observe(p: *const ()) -> bool {
    unsafe {
        let cmd = &*(p as *const CollectCommand);
        let mut r = EMPTY;
        match cmd {
            CollectCommand::StartCollect(c) => {
                r.kind = 0;
                r.collect_id = c.collect_id;
            }
            CollectCommand::DropCollect(c) => {
                r.kind = 1;
                r.collect_id = c.collect_id;
            }
            CollectCommand::CommitCollect(c) => {
                r.kind = 2;
                r.collect_id = c.collect_id;
            }
            CollectCommand::SubmitSpans(s) => {
                r.kind = 3;
                r.ntok = s.collect_token.len();
                r.tok0 = s.collect_token.first().copied();
                r.tok1 = if s.collect_token.len() > 1 { Some(s.collect_token[1]) } else { None };
                match &s.spans {
                    SpanSet::Span(raw) => {
                        r.set_kind = 0;
                        r.span_id = raw.id;
                        r.span_parent = raw.parent_id;
                        r.raw_kind = Some(raw.raw_kind);
                        r.begin = raw.begin_instant.0;
                        r.end = raw.end_instant.0;
                        let (a, b) = name_of(&raw.name);
                        r.name_ptr = a;
                        r.name_len = b;
                        r.nprops = match &raw.properties {
                            Some(p) => p.len(),
                            None => usize::MAX,
                        };
                        r.nspans = 1;
                    }
                    SpanSet::LocalSpansInner(l) => {
                        r.set_kind = 1;
                        r.nspans = l.spans.len();
                        r.end_time = l.end_time.0;
                        if let Some(s0) = l.spans.first() {
                            r.span_id = s0.id;
                            r.span_parent = s0.parent_id;
                        }
                    }
                    SpanSet::SharedLocalSpans(a) => {
                        r.set_kind = 2;
                        r.nspans = a.spans.len();
                        r.set_ptr = Arc::as_ptr(a) as usize;
                        r.end_time = a.end_time.0;
                    }
                }
            }
        }
        r.rejected = RING_FULL;
        if NLOG < MAXLOG {
            LOG[NLOG] = r;
        }
        NLOG += 1;
        !RING_FULL
    }
}

/// Install a command sender for virtual thread `t` whose ring only observes what is pushed
/// (observe-and-discard mode of the ring model).  No receiver is registered.
pub(crate) fn install_observed_sender(t: usize) {
    unsafe {
        rtrb::PUSH_HOOK = Some(observe);
    }
    let (tx, rx) = spsc::bounded::<CollectCommand>(4);
    std::mem::forget(rx);
    COMMAND_SENDER.install(t, UnsafeCell::new(tx));
}

pub(crate) fn set_reporter_ready(v: bool) {
    REPORTER_READY.store(v, Ordering::Relaxed);
}

pub(crate) fn set_next_collect_id(v: usize) {
    NEXT_COLLECT_ID.store(v, Ordering::Relaxed);
}

pub(crate) fn next_collect_id() -> usize {
    NEXT_COLLECT_ID.load(Ordering::Relaxed)
}

pub(crate) fn destroy_sender(t: usize) {
    COMMAND_SENDER.mark_destroyed(t);
}

pub(crate) fn sender_state(t: usize) -> tls::SlotState {
    COMMAND_SENDER.state_of(t)
}

pub(crate) fn nlog() -> usize {
    unsafe { NLOG }
}
pub(crate) fn log(i: usize) -> Rec {
    unsafe { LOG[i] }
}
pub(crate) fn set_ring_full(v: bool) {
    unsafe { RING_FULL = v }
}

/// Number of commands parked by force_send on virtual thread `t` (they survive a full ring).
pub(crate) fn sender_pending_len(t: usize) -> usize {
    match COMMAND_SENDER.peek(t) {
        Some(cell) => crate::util::spsc::verif_harness::pending_len(unsafe { &*cell.get() }),
        None => 0,
    }
}
