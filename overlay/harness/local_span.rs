//! Harnesses appended (as a child module) to fastrace/src/local/local_span.rs  —  C07 / C11 / C16
//! through the public thread-local entry points, on virtual thread 0.
#![allow(static_mut_refs, dead_code, unused_imports)]
use super::*;
use crate::collector::global_collector::verif_harness as gc;
use crate::collector::id::verif_harness as idgen;
use crate::collector::SpanContext;
use crate::collector::SpanId;
use crate::local::local_span_stack::verif_harness as stk;
use crate::verif_tls as tls;

static N_A: &str = "a";
static N_EV: &str = "event";

fn env() {
    tls::set_current(0);
    gc::install_observed_sender(0);
    idgen::install_symbolic_generator();
}

// C07 / C11: a span created from only no-op parents has an EMPTY token; setting it as local
// parent and asking for the current local parent must return None, not panic.
#[kani::proof]
#[kani::unwind(3)]
fn ls_current_local_parent_empty_token() {
    env();
    let st = stk::install_stack(0, 4);
    let h = st.borrow_mut().register_span_line(Some(Vec::new())).unwrap();
    let ctx = SpanContext::current_local_parent();
    assert!(ctx.is_none(), "a scope that belongs to no trace must yield no context");
    std::mem::forget((st, h));
    kani::cover!(true);
}

// C11: current_local_parent = (trace id, innermost local parent, flag) of the scope's first item.
#[kani::proof]
#[kani::unwind(3)]
fn ls_current_local_parent_fields() {
    env();
    let st = stk::install_stack(0, 4);
    assert!(SpanContext::current_local_parent().is_none(), "no local parent in scope must give None");
    let item = stk::any_item(kani::any());
    let h = st.borrow_mut().register_span_line(Some(vec![item])).unwrap();
    let c = SpanContext::current_local_parent().unwrap();
    assert!(c.trace_id == item.trace_id && c.span_id == item.parent_id && c.sampled == item.is_sampled,
        "current_local_parent does not identify the span set as local parent");
    std::mem::forget((st, h));
    kani::cover!(item.is_sampled);
    kani::cover!(!item.is_sampled);
}

// C11 / C05: with several parents the FIRST parent's trace id and sampling flag are used.
#[kani::proof]
#[kani::unwind(4)]
fn ls_current_local_parent_two_items() {
    env();
    let st = stk::install_stack(0, 4);
    let a = stk::any_item(kani::any());
    let b = stk::any_item(kani::any());
    let h = st.borrow_mut().register_span_line(Some(vec![a, b])).unwrap();
    let c = SpanContext::current_local_parent().unwrap();
    assert!(c.trace_id == a.trace_id && c.span_id == a.parent_id, "current_local_parent must use the first parent's trace");
    assert!(c.sampled == a.is_sampled, "current_local_parent must carry the first parent's sampling flag");
    std::mem::forget((st, h));
    kani::cover!(!a.is_sampled && b.is_sampled);
    kani::cover!(a.is_sampled && !b.is_sampled);
}

// C07: a property closure that itself uses the tracing API (LocalSpan::add_event) must not panic.
// NOT REGISTERED: enter_with_local_parent + with_properties on the thread's stack runs out of
// memory at 30 GB (DESIGN.md §1); the same defect class is decided for add_properties below.
#[kani::proof]
#[kani::unwind(3)]
fn ls_closure_reenters_with_properties() {
    env();
    let st = stk::install_stack(0, 4);
    let h = st.borrow_mut().register_span_line(Some(vec![stk::any_item(true)])).unwrap();
    let span = LocalSpan::enter_with_local_parent(N_A);
    let span = span.with_properties(|| {
        LocalSpan::add_event(Event::new(N_EV));
        [("k", "v")]
    });
    std::mem::forget((span, st, h));
    kani::cover!(true);
}

// C07: the same for LocalSpan::add_properties.
#[kani::proof]
#[kani::unwind(3)]
fn ls_closure_reenters_add_properties() {
    env();
    let st = stk::install_stack(0, 4);
    let h = st.borrow_mut().register_span_line(Some(vec![stk::any_item(true)])).unwrap();
    LocalSpan::add_properties(|| {
        let _ = SpanContext::current_local_parent();
        [("k", "v")]
    });
    std::mem::forget((st, h));
    kani::cover!(true);
}

// C07: the closure may also return a LAZY iterator whose items use the tracing API.
#[kani::proof]
#[kani::unwind(3)]
fn ls_closure_reenters_lazy_iterator() {
    env();
    let st = stk::install_stack(0, 4);
    let h = st.borrow_mut().register_span_line(Some(vec![stk::any_item(true)])).unwrap();
    LocalSpan::add_properties(|| {
        [1u8].into_iter().map(|_| {
            LocalSpan::add_event(Event::new(N_EV));
            ("k", "v")
        })
    });
    std::mem::forget((st, h));
    kani::cover!(true);
}

// C07 / C16: thread-local entry points return normally while the thread's local storage is being
// torn down (span stack already destroyed; the alive-and-empty case is st_no_parent_inert).  Part 1: LocalSpan API.
#[kani::proof]
#[kani::unwind(3)]
fn ls_tls_teardown_local_api() {
    tls::set_current(0);
    idgen::install_symbolic_generator();
    stk::destroy_stack(0);
    let s = LocalSpan::enter_with_local_parent(N_A);
    LocalSpan::add_event(Event::new(N_EV));
    let mut called = false;
    LocalSpan::add_properties(|| {
        called = true;
        [("k", "v")]
    });
    assert!(!called, "property closure invoked without a recording local parent");
    drop(s);
    kani::cover!(true);
}

// Part 2: contexts, collectors, child spans.
#[kani::proof]
#[kani::unwind(3)]
fn ls_tls_teardown_span_api() {
    tls::set_current(0);
    idgen::install_symbolic_generator();
    gc::install_observed_sender(0);
    stk::destroy_stack(0);
    assert!(SpanContext::current_local_parent().is_none());
    let child = crate::Span::enter_with_local_parent(N_A);
    assert!(SpanContext::from_span(&child).is_none(), "child of no local parent must be a no-op");
    let g = crate::Span::noop().set_local_parent();
    drop(g);
    drop(child);
    assert!(gc::nlog() == 0);
    kani::cover!(true);
}

// Part 3: a recording span finished while the thread's command sender is already destroyed.
#[kani::proof]
#[kani::unwind(3)]
fn ls_tls_teardown_sender_gone() {
    tls::set_current(0);
    idgen::install_symbolic_generator();
    gc::install_observed_sender(0);
    let span = crate::span::verif_harness::mk_span(kani::any(), 5, vec![stk::any_item(true)], Some(kani::any()));
    gc::destroy_sender(0);
    span.cancel();
    drop(span);
    assert!(gc::nlog() == 0);
    kani::cover!(true);
}

// C10 / C13: a local-parent scope affects only the thread it was opened on: on another (virtual)
// thread there is no local parent and local operations are inert; back on the first thread the
// scope is still in effect.  (Per-thread isolation itself is the thread_local model's contract;
// the harness decides that fastrace keeps this state nowhere else.)
#[kani::proof]
#[kani::unwind(3)]
fn ls_other_thread_unaffected() {
    env();
    let st = stk::install_stack(0, 4);
    let item = stk::any_item(true);
    let h = st.borrow_mut().register_span_line(Some(vec![item])).unwrap();
    tls::set_current(1);
    gc::install_observed_sender(1);
    assert!(SpanContext::current_local_parent().is_none(), "a local parent leaked to another thread");
    let l = LocalSpan::enter_with_local_parent(N_A);
    LocalSpan::add_event(Event::new(N_EV));
    drop(l);
    assert!(stk::stack_depth_of(1) == 0 && stk::stack_depth_of(0) == 1);
    tls::set_current(0);
    let c = SpanContext::current_local_parent().unwrap();
    assert!(c.span_id == item.parent_id && c.trace_id == item.trace_id, "the scope of the first thread was disturbed");
    assert!(gc::nlog() == 0);
    std::mem::forget((st, h));
    kani::cover!(true);
}
