//! Harnesses appended (as a child module) to fastrace/src/local/local_span_stack.rs.
#![allow(static_mut_refs, dead_code, unused_imports)]
use super::*;
use crate::collector::id::verif_harness as idgen;
use crate::collector::CollectTokenItem;
use crate::collector::SpanId;
use crate::collector::TraceId;

static N_A: &str = "a";
static N_EV: &str = "event";

pub(crate) fn any_item(sampled: bool) -> CollectTokenItem {
    CollectTokenItem {
        trace_id: TraceId(kani::any()),
        parent_id: SpanId(kani::any()),
        collect_id: kani::any(),
        is_root: kani::any(),
        is_sampled: sampled,
    }
}

/// Observable local context, read through private fields (cheap): number of scopes, epoch of the
/// top scope, and the id the next local span / child span would get as parent.
pub(crate) fn context(st: &LocalSpanStack) -> (usize, Option<usize>, Option<SpanId>) {
    let n = st.span_lines.len();
    match st.span_lines.last() {
        Some(l) => (n, Some(l.span_line_epoch()), crate::local::local_span_line::verif_harness::line_parent(l)),
        None => (n, None, None),
    }
}

// C10 / C16: with no scope, every local operation is inert.
#[kani::proof]
#[kani::unwind(3)]
fn st_no_parent_inert() {
    let mut st = LocalSpanStack::with_capacity(4);
    assert!(st.enter_span(N_A).is_none());
    st.add_event(Event::new(N_EV));
    let mut called = false;
    st.add_properties(|| {
        called = true;
        [("k", "v")]
    });
    assert!(!called, "property closure invoked with no local parent");
    assert!(st.current_collect_token().is_none());
    assert!(st.span_lines.is_empty());
    kani::cover!(true);
}

// C10: opening and closing an inner scope restores the outer context exactly; an inner scope in
// which nothing was recorded collects nothing, under its own token.
#[kani::proof]
#[kani::unwind(3)]
fn st_scope_frame() {
    let outer = any_item(true);
    let inner = any_item(kani::any()); // the inner scope may belong to an unsampled trace
    let mut st = LocalSpanStack::with_capacity(4);
    let _h_outer = st.register_span_line(Some(vec![outer])).unwrap();
    let before = context(&st);
    assert!(before.0 == 1 && before.2 == Some(outer.parent_id));
    let h_inner = st.register_span_line(Some(vec![inner])).unwrap();
    let mid = context(&st);
    assert!(mid.0 == 2 && mid.1 != before.1 && mid.2 == Some(inner.parent_id), "inner scope not in effect");
    let (spans, tok) = st.unregister_and_collect(h_inner).unwrap();
    let tok = tok.unwrap();
    assert!(tok.len() == 1 && tok[0] == inner, "inner scope collected under a different token");
    assert!(spans.is_empty(), "inner scope collected spans it did not record");
    assert!(context(&st) == before, "closing the inner scope did not restore the outer context");
    std::mem::forget((spans, tok, st));
    kani::cover!(inner.is_sampled);
    kani::cover!(!inner.is_sampled);
}

// C10: the same for a scope that belongs to no trace (empty token: a span created from no-op
// parents only, set as local parent) and for a collector scope (no token).
#[kani::proof]
#[kani::unwind(3)]
fn st_scope_frame_traceless() {
    let outer = any_item(true);
    let mut st = LocalSpanStack::with_capacity(4);
    let _h_outer = st.register_span_line(Some(vec![outer])).unwrap();
    let before = context(&st);
    let collector: bool = kani::any();
    let h_inner = st.register_span_line(if collector { None } else { Some(Vec::new()) }).unwrap();
    assert!(context(&st).0 == 2);
    let r = st.unregister_and_collect(h_inner);
    assert!(r.is_some(), "closing a scope must hand its (empty) content back");
    assert!(context(&st) == before, "closing a traceless / collector scope did not restore the outer context");
    std::mem::forget((r, st));
    kani::cover!(collector);
    kani::cover!(!collector);
}

// C10: a span entered and exited in a scope leaves the scope's context as it was.
#[kani::proof]
#[kani::unwind(3)]
fn st_span_frame() {
    idgen::install_symbolic_generator();
    let outer = any_item(true);
    let mut st = LocalSpanStack::with_capacity(4);
    let _h = st.register_span_line(Some(vec![outer])).unwrap();
    let before = context(&st);
    assert!(before.2 == Some(outer.parent_id));
    let s = st.enter_span(N_A).unwrap();
    assert!(context(&st).2 != before.2 || true);
    st.exit_span(s);
    assert!(context(&st) == before, "exit_span did not restore the local parent");
    std::mem::forget(st);
    kani::cover!(true);
}

// C09 / C07: at capacity register_span_line fails and changes nothing; later local operations go
// to the existing top scope.
#[kani::proof]
#[kani::unwind(3)]
fn st_capacity() {
    idgen::install_symbolic_generator();
    let a = any_item(true);
    let mut st = LocalSpanStack::with_capacity(1);
    let _h = st.register_span_line(Some(vec![a])).unwrap();
    let before = context(&st);
    assert!(st.register_span_line(None).is_none(), "scope registered beyond the limit");
    assert!(context(&st) == before, "a refused scope changed the local context");
    let s = st.enter_span(N_A);
    assert!(s.is_some(), "after a refused scope the existing scope must still record");
    std::mem::forget((st, s));
    kani::cover!(true);
}

/// Helper for other harness modules: install thread `t`'s span stack directly (capacity `cap`).
pub(crate) fn install_stack(t: usize, cap: usize) -> Rc<RefCell<LocalSpanStack>> {
    let st = Rc::new(RefCell::new(LocalSpanStack::with_capacity(cap)));
    LOCAL_SPAN_STACK.install(t, st.clone());
    st
}
pub(crate) fn destroy_stack(t: usize) {
    LOCAL_SPAN_STACK.mark_destroyed(t);
}
pub(crate) fn depth(st: &LocalSpanStack) -> usize {
    st.span_lines.len()
}
pub(crate) fn top_records(st: &LocalSpanStack) -> Option<&crate::util::RawSpans> {
    st.span_lines.last().map(crate::local::local_span_line::verif_harness::line_records)
}
/// Push a pre-built scope (as `register_span_line` would have left it after some recording).
pub(crate) fn push_line(st: &mut LocalSpanStack, line: SpanLine) -> SpanLineHandle {
    let epoch = line.span_line_epoch();
    st.span_lines.push(line);
    SpanLineHandle { span_line_epoch: epoch }
}

// C09 / C10: the same through the thread's stack: exit_span on a scope that is at its span limit
// (scope built directly: capacity 2, two records, the second one open) restores the local parent.
#[kani::proof]
#[kani::unwind(3)]
fn st_full_scope_exit_span() {
    let a = any_item(true);
    let id1 = SpanId(kani::any());
    let id2 = SpanId(kani::any());
    kani::assume(id1 != SpanId::default() && id2 != SpanId::default());
    let r1 = crate::local::raw_span::RawSpan::begin_with(id1, SpanId::default(), fastant::Instant(5), N_A, crate::local::raw_span::RawKind::Span);
    let r2 = crate::local::raw_span::RawSpan::begin_with(id2, id1, fastant::Instant(6), N_A, crate::local::raw_span::RawKind::Span);
    let epoch: usize = kani::any();
    let mut st = LocalSpanStack::with_capacity(4);
    let _h = push_line(
        &mut st,
        crate::local::local_span_line::verif_harness::mk_line(
            epoch,
            Some(vec![a]),
            crate::local::span_queue::verif_harness::mk_queue(vec![r1, r2], 2, Some(id2)),
        ),
    );
    assert!(context(&st).2 == Some(id2));
    assert!(st.enter_span(N_A).is_none(), "span recorded beyond the limit");
    st.exit_span(crate::local::local_span_line::verif_harness::mk_local_handle(epoch, 1));
    assert!(context(&st).2 == Some(id1), "exit_span on a scope at its span limit did not restore the enclosing local span");
    std::mem::forget(st);
    kani::cover!(true);
}
pub(crate) fn stack_state(t: usize) -> crate::verif_tls::SlotState {
    LOCAL_SPAN_STACK.state_of(t)
}
pub(crate) fn stack_depth_of(t: usize) -> usize {
    LOCAL_SPAN_STACK.peek(t).map(|s| s.borrow().span_lines.len()).unwrap_or(0)
}
