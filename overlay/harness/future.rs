//! Harnesses appended (as a child module) to fastrace/src/future.rs  —  C13.
//! Spans are built directly; the ring model only observes what is pushed; the thread's span stack
//! is installed directly on virtual thread 0.
#![allow(static_mut_refs, dead_code, unused_imports)]
use super::*;
use crate::collector::global_collector::verif_harness as gc;
use crate::collector::id::verif_harness as idgen;
use crate::collector::SpanId;
use crate::local::local_span_stack::verif_harness as stk;
use crate::local::local_span_stack::LocalSpanStack;
use crate::span::verif_harness as sp;
use crate::verif_tls as tls;
use std::cell::RefCell;
use std::future::Future;
use std::pin::Pin;
use std::rc::Rc;
use std::task::Context;
use std::task::Waker;

static N_A: &str = "a";

/// What the inner future saw when it was polled.
static mut SEEN_DEPTH: usize = 99;
static mut SEEN_PARENT: Option<SpanId> = None;
static mut POLLS: u8 = 0;
static mut STACK: Option<Rc<RefCell<LocalSpanStack>>> = None;

/// Inner future: observes the thread's local context, is Ready on its `ready_at`-th poll.
struct Probe {
    ready_at: u8,
    record_local_span: bool,
}
impl Future for Probe {
    type Output = u8;
    fn poll(self: Pin<&mut Self>, _cx: &mut Context<'_>) -> Poll<u8> {
        unsafe {
            POLLS += 1;
            if let Some(st) = STACK.as_ref() {
                let c = stk::context(&st.borrow());
                SEEN_DEPTH = c.0;
                SEEN_PARENT = c.2;
            }
            if self.record_local_span {
                let _l = LocalSpan::enter_with_local_parent(N_A);
            }
            if POLLS >= self.ready_at { Poll::Ready(42) } else { Poll::Pending }
        }
    }
}

fn env() {
    tls::set_current(0);
    gc::install_observed_sender(0);
    idgen::install_symbolic_generator();
    unsafe {
        STACK = Some(stk::install_stack(0, 4));
        fastant::CLOCK = 100;
    }
}

fn depth() -> usize {
    unsafe { stk::depth(&STACK.as_ref().unwrap().borrow()) }
}

// C13 / C16: a no-op span: polls pass through, no scope, nothing pushed.
#[kani::proof]
#[kani::unwind(3)]
fn fu_inspan_noop() {
    env();
    let mut f = Probe { ready_at: 2, record_local_span: false }.in_span(Span::noop());
    let mut cx = Context::from_waker(Waker::noop());
    let mut f = unsafe { Pin::new_unchecked(&mut f) };
    assert!(f.as_mut().poll(&mut cx) == Poll::Pending);
    assert!(unsafe { SEEN_DEPTH } == 0, "a no-op span opened a scope");
    assert!(f.as_mut().poll(&mut cx) == Poll::Ready(42));
    assert!(gc::nlog() == 0 && depth() == 0);
    kani::cover!(true);
}

// C13: a Pending poll: during the inner poll the span is the local parent; afterwards the thread's
// context is restored; exactly one local span set is handed over under the span's issued token;
// the span itself is not finished.
#[kani::proof]
#[kani::unwind(3)]
fn fu_inspan_scope_pending() {
    env();
    let item = sp::any_item(true);
    let id: u64 = kani::any();
    let span = sp::mk_span(id, 5, vec![item], None);
    let mut f = Probe { ready_at: 9, record_local_span: false }.in_span(span);
    let mut cx = Context::from_waker(Waker::noop());
    let mut fp = unsafe { Pin::new_unchecked(&mut f) };
    let r = fp.as_mut().poll(&mut cx);
    assert!(r == Poll::Pending);
    assert!(unsafe { SEEN_DEPTH } == 1 && unsafe { SEEN_PARENT } == Some(SpanId(id)), "the span was not the local parent during the poll");
    assert!(depth() == 0, "the local context was not restored after the poll");
    assert!(gc::nlog() == 1, "a Pending poll must hand over exactly its local span set");
    let s = gc::log(0);
    assert!(s.kind == 3 && s.set_kind == 1 && s.ntok == 1, "not a local span set");
    assert!(s.tok0.map(|t| t.parent_id) == Some(SpanId(id)) && s.tok0.map(|t| t.trace_id) == Some(item.trace_id));
    assert!(f.span.is_some(), "the span finished although the future is still pending");
    std::mem::forget(f);
    kani::cover!(true);
}

// C13: the poll that completes the future finishes the span, and the local spans of that last poll
// are handed over BEFORE the root's commit (otherwise they miss the delivered trace).
#[kani::proof]
#[kani::unwind(3)]
fn fu_inspan_finish_ready_root() {
    env();
    let item = sp::any_item(true);
    let id: u64 = kani::any();
    let cid: usize = kani::any();
    let span = sp::mk_span(id, 5, vec![item], Some(cid));
    let mut f = Probe { ready_at: 1, record_local_span: false }.in_span(span);
    let mut cx = Context::from_waker(Waker::noop());
    let fp = unsafe { Pin::new_unchecked(&mut f) };
    let r = fp.poll(&mut cx);
    assert!(r == Poll::Ready(42));
    assert!(f.span.is_none(), "the span must finish when the future completes");
    assert!(depth() == 0);
    assert!(gc::nlog() == 3, "completion of a root must hand over: local spans, the span, the commit");
    let (a, b, c) = (gc::log(0), gc::log(1), gc::log(2));
    let pos_local = if a.kind == 3 && a.set_kind == 1 { 0 } else if b.kind == 3 && b.set_kind == 1 { 1 } else { 2 };
    let pos_commit = if a.kind == 2 { 0 } else if b.kind == 2 { 1 } else { 2 };
    assert!(c.kind == 2 || b.kind == 2 || a.kind == 2);
    assert!(pos_local < pos_commit, "the final poll's local spans are handed over after the root's commit");
    assert!(gc::log(pos_commit).collect_id == cid);
    std::mem::forget(f);
    kani::cover!(true);
}

// C13: dropping an adapter whose future never completed finishes the span exactly once.
#[kani::proof]
#[kani::unwind(3)]
fn fu_inspan_drop_unfinished() {
    env();
    let item = sp::any_item(true);
    let id: u64 = kani::any();
    let f = Probe { ready_at: 9, record_local_span: false }.in_span(sp::mk_span(id, 5, vec![item], None));
    drop(f);
    assert!(gc::nlog() == 1, "dropping the adapter must finish the span exactly once");
    let s = gc::log(0);
    assert!(s.kind == 3 && s.set_kind == 0 && s.span_id == SpanId(id) && s.end != 0);
    kani::cover!(true);
}

// C13: enter_on_poll with no local parent records nothing and passes the result through.
#[kani::proof]
#[kani::unwind(3)]
fn fu_enter_on_poll_no_parent() {
    env();
    let mut f = Probe { ready_at: 2, record_local_span: false }.enter_on_poll(N_A);
    let mut cx = Context::from_waker(Waker::noop());
    let mut fp = unsafe { Pin::new_unchecked(&mut f) };
    assert!(fp.as_mut().poll(&mut cx) == Poll::Pending);
    assert!(fp.as_mut().poll(&mut cx) == Poll::Ready(42));
    assert!(gc::nlog() == 0 && depth() == 0);
    kani::cover!(true);
}

// C13: also when the polling thread ALREADY has the same span as local parent (block_on under
// span.set_local_parent()), every poll opens its own scope and hands its local spans over when
// that poll ends (otherwise the final poll's records are handed over after a root's commit).
#[kani::proof]
#[kani::unwind(3)]
fn fu_inspan_scope_inside_own_scope() {
    env();
    let item = sp::any_item(true);
    let id: u64 = kani::any();
    let span = sp::mk_span(id, 5, vec![item], None);
    // the enclosing scope, as span.set_local_parent() would have opened it (token = issued token)
    let outer = crate::collector::CollectTokenItem { parent_id: SpanId(id), is_root: false, ..item };
    let h = unsafe { STACK.as_ref().unwrap().borrow_mut().register_span_line(Some(vec![outer])) };
    assert!(depth() == 1);
    let mut f = Probe { ready_at: 9, record_local_span: false }.in_span(span);
    let mut cx = Context::from_waker(Waker::noop());
    let fp = unsafe { Pin::new_unchecked(&mut f) };
    let r = fp.poll(&mut cx);
    assert!(r == Poll::Pending);
    assert!(unsafe { SEEN_DEPTH } == 2 && unsafe { SEEN_PARENT } == Some(SpanId(id)), "the poll did not get its own local-parent scope");
    assert!(depth() == 1, "the previous local context was not restored after the poll");
    assert!(gc::nlog() == 1 && gc::log(0).kind == 3 && gc::log(0).set_kind == 1, "the poll's local spans were not handed over when the poll ended");
    std::mem::forget((f, h));
    kani::cover!(true);
}
