//! Harnesses appended (as a child module) to fastrace-jaeger/src/lib.rs  —  C20 (and C19 convert).
//! The real `try_report` loop runs with its three heavy callees replaced by oracles:
//!   convert(slice)   -> records which sub-range of the batch it was given, returns no spans
//!   serialize(..)    -> a buffer whose length is BASE + sum of the symbolic per-span weights of
//!                       that range (every span-size distribution at once; lengths above the limit
//!                       are clamped to 8191: the loop only compares with 8000)
//!   send_to(..)      -> logs (length, range)
#![allow(static_mut_refs, dead_code, unused_imports)]
use super::*;
use std::os::fd::FromRawFd;

const BASE: usize = 60;
const MAXN: usize = 8;
static mut W: [usize; MAXN] = [0; MAXN];
static mut BATCH_PTR: usize = 0;
static mut LAST: (usize, usize) = (0, 0);
static mut SENT: [(usize, usize, usize); 8] = [(0, 0, 0); 8]; // at most n datagrams for n <= 8 spans
static mut NSENT: usize = 0;
static mut CONVERTS: usize = 0;

fn convert_oracle(_this: &JaegerReporter, spans: &[SpanRecord]) -> Vec<JaegerSpan> {
    unsafe {
        let off = (spans.as_ptr() as usize - BATCH_PTR) / std::mem::size_of::<SpanRecord>();
        LAST = (off, spans.len());
        CONVERTS += 1;
    }
    Vec::new()
}

fn serialize_oracle(_this: &JaegerReporter, _spans: Vec<JaegerSpan>) -> Result<Vec<u8>, Box<dyn std::error::Error>> {
    std::mem::forget(_spans);
    unsafe {
        let (off, len) = LAST;
        let mut size = BASE;
        let mut i = 0;
        while i < MAXN {
            if i >= off && i < off + len {
                size += W[i];
            }
            i += 1;
        }
        // only the LENGTH of the buffer is ever looked at (try_report compares it, the send_to
        // oracle logs it): uninitialised capacity, length set directly
        let mut v: Vec<u8> = Vec::with_capacity(8192);
        v.set_len(if size < 8191 { size } else { 8191 });
        Ok(v)
    }
}

fn send_to_oracle<A: std::net::ToSocketAddrs>(_this: &UdpSocket, buf: &[u8], _addr: A) -> std::io::Result<usize> {
    unsafe {
        if NSENT < 8 {
            SENT[NSENT] = (buf.len(), LAST.0, LAST.1);
        }
        NSENT += 1;
    }
    Ok(buf.len())
}

fn fits_alone(i: usize) -> bool {
    unsafe { BASE + W[i] < 8000 }
}

fn splitter(n: usize) {
    let reporter = JaegerReporter {
        agent_addr: SocketAddr::from(([127, 0, 0, 1], 6831)),
        service_name: String::new(),
        socket: unsafe { UdpSocket::from_raw_fd(3) },
    };
    let batch: Vec<SpanRecord> = match n {
        1 => vec![SpanRecord::default()],
        2 => vec![SpanRecord::default(), SpanRecord::default()],
        3 => vec![SpanRecord::default(), SpanRecord::default(), SpanRecord::default()],
        4 => vec![SpanRecord::default(), SpanRecord::default(), SpanRecord::default(), SpanRecord::default()],
        5 => vec![SpanRecord::default(), SpanRecord::default(), SpanRecord::default(), SpanRecord::default(), SpanRecord::default()],
        6 => vec![SpanRecord::default(), SpanRecord::default(), SpanRecord::default(), SpanRecord::default(), SpanRecord::default(), SpanRecord::default()],
        7 => vec![SpanRecord::default(), SpanRecord::default(), SpanRecord::default(), SpanRecord::default(), SpanRecord::default(), SpanRecord::default(), SpanRecord::default()],
        _ => vec![SpanRecord::default(), SpanRecord::default(), SpanRecord::default(), SpanRecord::default(), SpanRecord::default(), SpanRecord::default(), SpanRecord::default(), SpanRecord::default()],
    };
    unsafe {
        BATCH_PTR = batch.as_ptr() as usize;
        let mut i = 0;
        while i < MAXN {
            W[i] = kani::any();
            kani::assume(W[i] >= 1 && W[i] <= 9000);
            i += 1;
        }
    }
    assert!(n >= 1 && n <= MAXN && batch.len() == n);
    let r = reporter.try_report(&batch);
    assert!(r.is_ok());
    unsafe {
        assert!(NSENT <= n, "more datagrams than spans");
        // every datagram is below the limit
        let mut k = 0;
        while k < 8 {
            if k < NSENT {
                assert!(SENT[k].0 < 8000, "a datagram of 8000 bytes or more was sent");
                assert!(SENT[k].2 >= 1, "an empty batch was sent");
            }
            k += 1;
        }
        // every span that fits alone is sent exactly once, in order; oversize spans are skipped
        let mut next = 0; // next span index expected to be covered
        k = 0;
        while k < 8 {
            if k < NSENT {
                let (_, off, len) = SENT[k];
                // spans between `next` and `off` were skipped: they must all be oversize
                let mut j = 0;
                while j < MAXN {
                    if j >= next && j < off {
                        assert!(!fits_alone(j), "a span that fits in a datagram was skipped");
                    }
                    j += 1;
                }
                assert!(off >= next, "a span was sent twice or out of order");
                next = off + len;
            }
            k += 1;
        }
        let mut j = 0;
        while j < MAXN {
            if j >= next && j < n {
                assert!(!fits_alone(j), "a span at the end of the batch that fits in a datagram was not sent");
            }
            j += 1;
        }
        assert!(next <= n);
        kani::cover!(NSENT >= 2, "batch split into several datagrams");
        kani::cover!(NSENT == 0, "nothing fits");
    }
    std::mem::forget((reporter, batch));
}

#[kani::proof]
#[kani::unwind(10)]
#[kani::stub(JaegerReporter::convert, convert_oracle)]
#[kani::stub(JaegerReporter::serialize, serialize_oracle)]
#[kani::stub(std::net::UdpSocket::send_to, send_to_oracle)]
fn jg_splitter_n2() {
    splitter(2);
}

#[kani::proof]
#[kani::unwind(10)]
#[kani::stub(JaegerReporter::convert, convert_oracle)]
#[kani::stub(JaegerReporter::serialize, serialize_oracle)]
#[kani::stub(std::net::UdpSocket::send_to, send_to_oracle)]
fn jg_splitter_n3() {
    splitter(3);
}

#[kani::proof]
#[kani::unwind(12)]
#[kani::stub(JaegerReporter::convert, convert_oracle)]
#[kani::stub(JaegerReporter::serialize, serialize_oracle)]
#[kani::stub(std::net::UdpSocket::send_to, send_to_oracle)]
fn jg_splitter_n4() {
    splitter(4);
}

#[kani::proof]
#[kani::unwind(14)]
#[kani::stub(JaegerReporter::convert, convert_oracle)]
#[kani::stub(JaegerReporter::serialize, serialize_oracle)]
#[kani::stub(std::net::UdpSocket::send_to, send_to_oracle)]
fn jg_splitter_n5() {
    splitter(5);
}

#[kani::proof]
#[kani::unwind(16)]
#[kani::stub(JaegerReporter::convert, convert_oracle)]
#[kani::stub(JaegerReporter::serialize, serialize_oracle)]
#[kani::stub(std::net::UdpSocket::send_to, send_to_oracle)]
fn jg_splitter_n6() {
    splitter(6);
}

#[kani::proof]
#[kani::unwind(17)]
#[kani::stub(JaegerReporter::convert, convert_oracle)]
#[kani::stub(JaegerReporter::serialize, serialize_oracle)]
#[kani::stub(std::net::UdpSocket::send_to, send_to_oracle)]
fn jg_splitter_n7() {
    splitter(7);
}

#[kani::proof]
#[kani::unwind(18)]
#[kani::stub(JaegerReporter::convert, convert_oracle)]
#[kani::stub(JaegerReporter::serialize, serialize_oracle)]
#[kani::stub(std::net::UdpSocket::send_to, send_to_oracle)]
fn jg_splitter_n8() {
    splitter(8);
}
