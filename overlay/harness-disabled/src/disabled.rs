//! C16: built WITHOUT the `enable` feature every API call is a no-op; no property closure is ever
//! invoked; no context exists; no command ring is ever created.
use fastrace::collector::Config;
use fastrace::local::LocalCollector;
use fastrace::prelude::*;
use std::future::Future;
use std::task::{Context, Poll, Waker};

static mut CALLS: u32 = 0;
fn kv() -> (&'static str, &'static str) {
    unsafe { CALLS += 1 };
    ("k", "v")
}
fn kvs() -> [(&'static str, &'static str); 1] {
    unsafe { CALLS += 1 };
    [("k", "v")]
}

#[kani::proof]
#[kani::unwind(3)]
fn disabled_span_api() {
    let ctx = SpanContext::new(TraceId(kani::any()), SpanId(kani::any())).sampled(kani::any());
    let root = Span::root("root", ctx).with_property(kv).with_properties(kvs);
    let child = Span::enter_with_parent("c", &root);
    let multi = Span::enter_with_parents("m", [&root, &child]);
    let lp = Span::enter_with_local_parent("lp");
    root.add_property(kv);
    root.add_properties(kvs);
    root.add_event(Event::new("e").with_property(kv).with_properties(kvs));
    assert!(SpanContext::from_span(&root).is_none() && SpanContext::from_span(&multi).is_none());
    assert!(root.elapsed().is_none() && lp.elapsed().is_none());
    root.cancel();
    let g = root.set_local_parent();
    assert!(SpanContext::current_local_parent().is_none());
    drop(g);
    drop((child, multi, lp, root));
    assert!(unsafe { CALLS } == 0, "a property closure was invoked in a build without `enable`");
    assert!(unsafe { rtrb::RINGS_CREATED } == 0, "a command queue was created in a build without `enable`");
    kani::cover!(true);
}

#[kani::proof]
#[kani::unwind(3)]
fn disabled_local_api() {
    let root = Span::root("root", SpanContext::random());
    let _g = root.set_local_parent();
    let l = LocalSpan::enter_with_local_parent("l").with_property(kv).with_properties(kvs);
    LocalSpan::add_property(kv);
    LocalSpan::add_properties(kvs);
    LocalSpan::add_event(Event::new("e"));
    drop(l);
    let c = LocalCollector::start();
    let _l2 = LocalSpan::enter_with_local_parent("l2");
    let spans = c.collect();
    let recs = spans.to_span_records(SpanContext::new(TraceId(1), SpanId(2)));
    assert!(recs.is_empty(), "to_span_records returned records in a build without `enable`");
    root.push_child_spans(spans);
    assert!(unsafe { CALLS } == 0, "a property closure was invoked in a build without `enable`");
    assert!(unsafe { rtrb::RINGS_CREATED } == 0);
    kani::cover!(true);
}

struct Ready1;
impl Future for Ready1 {
    type Output = u8;
    fn poll(self: std::pin::Pin<&mut Self>, _: &mut Context<'_>) -> Poll<u8> {
        Poll::Ready(1)
    }
}

#[kani::proof]
#[kani::unwind(3)]
fn disabled_future_api() {
    let f = Ready1.in_span(Span::root("r", SpanContext::random()));
    let mut f = std::pin::pin!(f);
    let mut cx = Context::from_waker(Waker::noop());
    assert!(f.as_mut().poll(&mut cx) == Poll::Ready(1));
    let g = Ready1.enter_on_poll("p");
    let mut g = std::pin::pin!(g);
    assert!(g.as_mut().poll(&mut cx) == Poll::Ready(1));
    assert!(unsafe { rtrb::RINGS_CREATED } == 0);
    kani::cover!(true);
}
