use fastrace::prelude::*;

#[kani::proof]
fn smoke_disabled() {
    let s = Span::root("r", SpanContext::new(TraceId(kani::any()), SpanId(kani::any())));
    assert!(SpanContext::from_span(&s).is_none());
}
