//! Harnesses for the build WITHOUT the `enable` feature (C16).
#![allow(dead_code, unused_imports)]
#[cfg(kani)]
mod disabled;
