// VERIF-REPLAY-META {"property": "C01", "pkg": "fastrace", "mod": "util::spsc", "name": "q_step_try_recv_c1_parked", "path": "util::spsc::verif_harness::q_step_try_recv_c1_parked", "failed_checks": ["\"Closed reported while commands are still in the ring: they are dropped with the receiver\" @ verif-harness/spsc.rs:347:17 in function util::spsc::verif_harness::q_step_try_recv"], "created": "2026-10-01T08:19:30"}
// Counterexample found by Kani/CBMC; replay with:  ./run.py --replay /verif/replays/C01-q_step_try_recv_c1_parked.rs
// The values are the solver's assignment to the harness's kani::any() calls, in call order.
/// Counterexample for harness `util::spsc::verif_harness::q_step_try_recv_c1_parked`
///
/// Failed check `util::spsc::verif_harness::q_step_try_recv.assertion.2`: "Closed reported while commands are still in the ring: they are dropped with the receiver"
/// at verif-harness/spsc.rs:347:17 in function util::spsc::verif_harness::q_step_try_recv

#[test]
fn kani_concrete_playback_q_step_try_recv_c1_parked() {
    let concrete_vals: Vec<Vec<u8>> = vec![
        // 0ul
        vec![0, 0, 0, 0, 0, 0, 0, 0],
        // 0
        vec![0],
        // 1
        vec![1],
        // 1
        vec![1],
    ];
    kani::concrete_playback_run(concrete_vals, q_step_try_recv_c1_parked);
}

// native replay when recorded: dev=fails: /var/tmp/fv-dev2/verif-harness/spsc.rs:347:17: Closed reported while commands are still in the ring: they are dropped with the receiver  release=fails: /var/tmp/fv-dev2/verif-harness/spsc.rs:347:17: Closed reported while commands are still in the ring: they are dropped with the receiver
