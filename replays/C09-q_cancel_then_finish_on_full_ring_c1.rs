// VERIF-REPLAY-META {"property": "C09", "pkg": "fastrace", "mod": "util::spsc", "name": "q_cancel_then_finish_on_full_ring_c1", "path": "util::spsc::verif_harness::q_cancel_then_finish_on_full_ring_c1", "failed_checks": ["\"COMMIT does not follow DROP\" @ verif-harness/spsc.rs:519:9 in function util::spsc::verif_harness::q_cancel_then_finish_on_full_ring"], "created": "2026-10-01T16:55:19"}
// Counterexample found by Kani/CBMC; replay with:  ./run.py --replay /verif/replays/C09-q_cancel_then_finish_on_full_ring_c1.rs
// The values are the solver's assignment to the harness's kani::any() calls, in call order.
/// Counterexample for harness `util::spsc::verif_harness::q_cancel_then_finish_on_full_ring_c1`
///
/// Failed check `util::spsc::verif_harness::q_cancel_then_finish_on_full_ring.assertion.3`: "COMMIT does not follow DROP"
/// at verif-harness/spsc.rs:519:9 in function util::spsc::verif_harness::q_cancel_then_finish_on_full_ring

#[test]
fn kani_concrete_playback_q_cancel_then_finish_on_full_ring_c1() {
    let concrete_vals: Vec<Vec<u8>> = vec![
    ];
    kani::concrete_playback_run(concrete_vals, q_cancel_then_finish_on_full_ring_c1);
}

// native replay when recorded: dev=fails: /var/tmp/fv-mut-C09/verif-harness/spsc.rs:519:9: COMMIT does not follow DROP  release=fails: /var/tmp/fv-mut-C09/verif-harness/spsc.rs:519:9: COMMIT does not follow DROP
