// VERIF-REPLAY-META {"property": "C06", "pkg": "fastrace", "mod": "local::span_queue", "name": "sq_attach_under_innermost", "path": "local::span_queue::verif_harness::sq_attach_under_innermost", "failed_checks": ["Kani does not support reasoning about pointer to unallocated memory @ library/kani/src/lib.rs:57:1 in function kani::mem::cbmc::same_allocation", "dereference failure: pointer NULL @ ../../../home/runner/.rustup/toolchains/nightly-2026-08-21-x86_64-unknown-linux-gnu/lib/rustlib/src/rust/library/core/src/ptr/mod.rs:1964:41 in function std::ptr::write::<(std::borrow::Cow<'_, str>, std::borrow::Cow<'_, str>)>", "dereference failure: deallocated dynamic object @ ../../../home/runner/.rustup/toolchains/nightly-2026-08-21-x86_64-unknown-linux-gnu/lib/rustlib/src/rust/library/core/src/ptr/mod.rs:1964:41 in function std::ptr::write::<(std::borrow::Cow<'_, str>, std::borrow::Cow<'_, str>)>", "dereference failure: dead object @ ../../../home/runner/.rustup/toolchains/nightly-2026-08-21-x86_64-unknown-linux-gnu/lib/rustlib/src/rust/library/core/src/ptr/mod.rs:1964:41 in function std::ptr::write::<(std::borrow::Cow<'_, str>, std::borrow::Cow<'_, str>)>", "dereference failure: pointer outside object bounds @ ../../../home/runner/.rustup/toolchains/nightly-2026-08-21-x86_64-unknown-linux-gnu/lib/rustlib/src/rust/library/core/src/ptr/mod.rs:1964:41 in function std::ptr::write::<(std::borrow::Cow<'_, str>, std::borrow::Cow<'_, str>)>", "dereference failure: invalid integer address @ ../../../home/runner/.rustup/toolchains/nightly-2026-08-21-x86_64-unknown-linux-gnu/lib/rustlib/src/rust/library/core/src/ptr/mod.rs:1964:41 in function std::ptr::write::<(std::borrow::Cow<'_, str>, std::borrow::Cow<'_, str>)>"], "created": "2026-10-01T08:59:57"}
// Counterexample found by Kani/CBMC; replay with:  ./run.py --replay /verif/replays/C06-sq_attach_under_innermost.rs
// The values are the solver's assignment to the harness's kani::any() calls, in call order.
/// Counterexample for harness `local::span_queue::verif_harness::sq_attach_under_innermost`
///
/// Failed check `kani::mem::cbmc::same_allocation.unsupported_construct.1`: Kani does not support reasoning about pointer to unallocated memory
/// at library/kani/src/lib.rs:57:1 in function kani::mem::cbmc::same_allocation

#[test]
fn kani_concrete_playback_sq_attach_under_innermost() {
    let concrete_vals: Vec<Vec<u8>> = vec![
        // 0
        vec![0, 0, 0, 0],
        // 0
        vec![0, 0, 0, 0],
        // 2305843009213693952ul
        vec![0, 0, 0, 0, 0, 0, 0, 32],
        // 0
        vec![0],
        // 0
        vec![0],
    ];
    kani::concrete_playback_run(concrete_vals, sq_attach_under_innermost);
}

// native replay when recorded: dev=values-do-not-fit: library/kani/src/concrete_playback.rs:61:46: Not enough det vals found  release=values-do-not-fit: library/kani/src/concrete_playback.rs:61:46: Not enough det vals found
