// VERIF-REPLAY-META {"property": "C01", "pkg": "fastrace", "mod": "util::spsc", "name": "q_try_recv_seq3_any_producer", "path": "util::spsc::verif_harness::q_try_recv_seq3_any_producer", "failed_checks": ["\"Closed reported before every pushed command was received\" @ verif-harness/spsc.rs:459:13 in function util::spsc::verif_harness::q_try_recv_seq3_any_producer"], "created": "2026-10-01T08:39:59"}
// Counterexample found by Kani/CBMC; replay with:  ./run.py --replay /verif/replays/C01-q_try_recv_seq3_any_producer.rs
// The values are the solver's assignment to the harness's kani::any() calls, in call order.
/// Counterexample for harness `util::spsc::verif_harness::q_try_recv_seq3_any_producer`
///
/// Failed check `util::spsc::verif_harness::q_try_recv_seq3_any_producer.assertion.18`: "Closed reported before every pushed command was received"
/// at verif-harness/spsc.rs:459:13 in function util::spsc::verif_harness::q_try_recv_seq3_any_producer

#[test]
fn kani_concrete_playback_q_try_recv_seq3_any_producer() {
    let concrete_vals: Vec<Vec<u8>> = vec![
        // 2ul
        vec![2, 0, 0, 0, 0, 0, 0, 0],
        // 0ul
        vec![0, 0, 0, 0, 0, 0, 0, 0],
        // 0
        vec![0],
        // 0
        vec![0],
        // 0
        vec![0],
        // 0
        vec![0],
        // 0
        vec![0],
        // 0
        vec![0],
        // 0
        vec![0],
        // 0
        vec![0],
        // 0
        vec![0],
        // 0
        vec![0],
        // 0
        vec![0],
        // 0
        vec![0],
        // 0
        vec![0],
        // 0
        vec![0],
        // 0
        vec![0],
        // 0
        vec![0],
        // 1
        vec![1],
        // 1
        vec![1],
    ];
    kani::concrete_playback_run(concrete_vals, q_try_recv_seq3_any_producer);
}

// native replay when recorded: dev=fails: /var/tmp/fv-dev2/verif-harness/spsc.rs:459:13: Closed reported before every pushed command was received  release=fails: /var/tmp/fv-dev2/verif-harness/spsc.rs:459:13: Closed reported before every pushed command was received
