// VERIF-REPLAY-META {"property": "C01", "pkg": "fastrace", "mod": "util::spsc", "name": "q_try_recv_any_producer", "path": "util::spsc::verif_harness::q_try_recv_any_producer", "failed_checks": ["\"Closed reported while commands are still in the ring: they are dropped with the receiver\" @ verif-harness/spsc.rs:395:17 in function util::spsc::verif_harness::q_try_recv_any_producer"], "created": "2026-10-01T08:39:34"}
// Counterexample found by Kani/CBMC; replay with:  ./run.py --replay /verif/replays/C01-q_try_recv_any_producer.rs
// The values are the solver's assignment to the harness's kani::any() calls, in call order.
/// Counterexample for harness `util::spsc::verif_harness::q_try_recv_any_producer`
///
/// Failed check `util::spsc::verif_harness::q_try_recv_any_producer.assertion.2`: "Closed reported while commands are still in the ring: they are dropped with the receiver"
/// at verif-harness/spsc.rs:395:17 in function util::spsc::verif_harness::q_try_recv_any_producer

#[test]
fn kani_concrete_playback_q_try_recv_any_producer() {
    let concrete_vals: Vec<Vec<u8>> = vec![
        // 2ul
        vec![2, 0, 0, 0, 0, 0, 0, 0],
        // 0ul
        vec![0, 0, 0, 0, 0, 0, 0, 0],
        // 0
        vec![0],
        // 0
        vec![0],
        // 0
        vec![0],
        // 0
        vec![0],
        // 1
        vec![1],
        // 1
        vec![1],
    ];
    kani::concrete_playback_run(concrete_vals, q_try_recv_any_producer);
}

// native replay when recorded: dev=fails: /var/tmp/fv-dev2/verif-harness/spsc.rs:395:17: Closed reported while commands are still in the ring: they are dropped with the receiver  release=fails: /var/tmp/fv-dev2/verif-harness/spsc.rs:395:17: Closed reported while commands are still in the ring: they are dropped with the receiver
