// VERIF-REPLAY-META {"property": "C02", "pkg": "fastrace", "mod": "local::local_span_line", "name": "sl_token_two_items", "path": "local::local_span_line::verif_harness::sl_token_two_items", "failed_checks": ["\"items changed, reordered or not re-parented\" @ verif-harness/local_span_line.rs:70:5 in function local::local_span_line::verif_harness::sl_token_two_items"], "created": "2026-10-01T17:02:19"}
// Counterexample found by Kani/CBMC; replay with:  ./run.py --replay /verif/replays/C02-sl_token_two_items.rs
// The values are the solver's assignment to the harness's kani::any() calls, in call order.
/// Counterexample for harness `local::local_span_line::verif_harness::sl_token_two_items`
///
/// Failed check `local::local_span_line::verif_harness::sl_token_two_items.assertion.2`: "items changed, reordered or not re-parented"
/// at verif-harness/local_span_line.rs:70:5 in function local::local_span_line::verif_harness::sl_token_two_items

#[test]
fn kani_concrete_playback_sl_token_two_items() {
    let concrete_vals: Vec<Vec<u8>> = vec![
        // 0
        vec![0, 0, 0, 0],
        // 0
        vec![0, 0, 0, 0],
        // 0
        vec![0, 0, 0, 0, 0, 0, 0, 0, 0, 0, 0, 0, 0, 0, 0, 0],
        // 0ul
        vec![0, 0, 0, 0, 0, 0, 0, 0],
        // 0ul
        vec![0, 0, 0, 0, 0, 0, 0, 0],
        // 0
        vec![0],
        // 0
        vec![0],
        // 0
        vec![0, 0, 0, 0, 0, 0, 0, 0, 0, 0, 0, 0, 0, 0, 0, 0],
        // 0ul
        vec![0, 0, 0, 0, 0, 0, 0, 0],
        // 0ul
        vec![0, 0, 0, 0, 0, 0, 0, 0],
        // 0
        vec![0],
        // 0
        vec![0],
    ];
    kani::concrete_playback_run(concrete_vals, sl_token_two_items);
}

// native replay when recorded: dev=fails: /var/tmp/fv-mut-C02/verif-harness/local_span_line.rs:70:5: items changed, reordered or not re-parented  release=fails: /var/tmp/fv-mut-C02/verif-harness/local_span_line.rs:70:5: items changed, reordered or not re-parented
