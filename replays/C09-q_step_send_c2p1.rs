// VERIF-REPLAY-META {"property": "C09", "pkg": "fastrace", "mod": "util::spsc", "name": "q_step_send_c2p1", "path": "util::spsc::verif_harness::q_step_send_c2p1", "failed_checks": ["\"queue content differs at position 2 (lost / reordered / duplicated command)\" @ verif-harness/spsc.rs:212:5 in function util::spsc::verif_harness::assert_abstract_queue"], "created": "2026-10-01T16:55:09"}
// Counterexample found by Kani/CBMC; replay with:  ./run.py --replay /verif/replays/C09-q_step_send_c2p1.rs
// The values are the solver's assignment to the harness's kani::any() calls, in call order.
/// Counterexample for harness `util::spsc::verif_harness::q_step_send_c2p1`
///
/// Failed check `util::spsc::verif_harness::assert_abstract_queue.assertion.3`: "queue content differs at position 2 (lost / reordered / duplicated command)"
/// at verif-harness/spsc.rs:212:5 in function util::spsc::verif_harness::assert_abstract_queue

#[test]
fn kani_concrete_playback_q_step_send_c2p1() {
    let concrete_vals: Vec<Vec<u8>> = vec![
        // 2ul
        vec![2, 0, 0, 0, 0, 0, 0, 0],
        // 0
        vec![0],
    ];
    kani::concrete_playback_run(concrete_vals, q_step_send_c2p1);
}

// native replay when recorded: dev=fails: /var/tmp/fv-mut-C09/verif-harness/spsc.rs:212:5: queue content differs at position 2 (lost / reordered / duplicated command)  release=fails: /var/tmp/fv-mut-C09/verif-harness/spsc.rs:212:5: queue content differs at position 2 (lost / reordered / duplicated command)
