// VERIF-REPLAY-META {"property": "C09", "pkg": "fastrace", "mod": "util::spsc", "name": "q_cancel_then_finish_on_full_ring_c2", "path": "util::spsc::verif_harness::q_cancel_then_finish_on_full_ring_c2", "failed_checks": ["\"DROP is not the first command after the older ones\" @ verif-harness/spsc.rs:518:9 in function util::spsc::verif_harness::q_cancel_then_finish_on_full_ring"], "created": "2026-10-01T16:49:35"}
// Counterexample found by Kani/CBMC; replay with:  ./run.py --replay /verif/replays/C09-q_cancel_then_finish_on_full_ring_c2.rs
// The values are the solver's assignment to the harness's kani::any() calls, in call order.
/// Counterexample for harness `util::spsc::verif_harness::q_cancel_then_finish_on_full_ring_c2`
///
/// Failed check `util::spsc::verif_harness::q_cancel_then_finish_on_full_ring.assertion.1`: "DROP is not the first command after the older ones"
/// at verif-harness/spsc.rs:518:9 in function util::spsc::verif_harness::q_cancel_then_finish_on_full_ring

#[test]
fn kani_concrete_playback_q_cancel_then_finish_on_full_ring_c2() {
    let concrete_vals: Vec<Vec<u8>> = vec![
    ];
    kani::concrete_playback_run(concrete_vals, q_cancel_then_finish_on_full_ring_c2);
}

// native replay when recorded: dev=fails: /var/tmp/fv-mut-C09/verif-harness/spsc.rs:518:9: DROP is not the first command after the older ones  release=fails: /var/tmp/fv-mut-C09/verif-harness/spsc.rs:518:9: DROP is not the first command after the older ones
