// VERIF-REPLAY-META {"property": "C09", "pkg": "fastrace", "mod": "util::spsc", "name": "q_step_send", "path": "util::spsc::verif_harness::q_step_send", "failed_checks": ["\"queue content differs at position 0 (lost / reordered / duplicated command)\" @ verif-harness/spsc.rs:210:5 in function util::spsc::verif_harness::assert_abstract_queue", "\"queue content differs at position 1 (lost / reordered / duplicated command)\" @ verif-harness/spsc.rs:211:5 in function util::spsc::verif_harness::assert_abstract_queue", "\"queue content differs at position 2 (lost / reordered / duplicated command)\" @ verif-harness/spsc.rs:212:5 in function util::spsc::verif_harness::assert_abstract_queue"], "created": "2026-10-01T07:02:03"}
// Counterexample found by Kani/CBMC; replay with:  ./run.py --replay /verif/replays/C09-q_step_send.rs
// The values are the solver's assignment to the harness's kani::any() calls, in call order.
/// Counterexample for harness `util::spsc::verif_harness::q_step_send`
///
/// Failed check `util::spsc::verif_harness::assert_abstract_queue.assertion.1`: "queue content differs at position 0 (lost / reordered / duplicated command)"
/// at verif-harness/spsc.rs:210:5 in function util::spsc::verif_harness::assert_abstract_queue

#[test]
fn kani_concrete_playback_q_step_send() {
    let concrete_vals: Vec<Vec<u8>> = vec![
        // 1ul
        vec![1, 0, 0, 0, 0, 0, 0, 0],
        // 0ul
        vec![0, 0, 0, 0, 0, 0, 0, 0],
        // 2ul
        vec![2, 0, 0, 0, 0, 0, 0, 0],
        // 1
        vec![1],
        // 0
        vec![0],
    ];
    kani::concrete_playback_run(concrete_vals, q_step_send);
}

// native replay when recorded: dev=fails: /var/tmp/fv-dev2/verif-harness/spsc.rs:210:5: queue content differs at position 0 (lost / reordered / duplicated command)  release=fails: /var/tmp/fv-dev2/verif-harness/spsc.rs:210:5: queue content differs at position 0 (lost / reordered / duplicated command)
