// VERIF-REPLAY-META {"property": "C16", "pkg": "fastrace", "mod": "span", "name": "sp_noop_parents", "path": "span::verif_harness::sp_noop_parents", "failed_checks": ["assertion failed: Span::enter_with_parent(N_A, &noop).inner.is_none() @ verif-harness/span.rs:342:5 in function span::verif_harness::sp_noop_parents"], "created": "2026-10-02T04:56:31"}
// Counterexample found by Kani/CBMC; replay with:  ./run.py --replay /verif/replays/C16-sp_noop_parents.rs
// The values are the solver's assignment to the harness's kani::any() calls, in call order.
/// Counterexample for harness `span::verif_harness::sp_noop_parents`
///
/// Failed check `span::verif_harness::sp_noop_parents.assertion.1`: assertion failed: Span::enter_with_parent(N_A, &noop).inner.is_none()
/// at verif-harness/span.rs:342:5 in function span::verif_harness::sp_noop_parents

#[test]
fn kani_concrete_playback_sp_noop_parents() {
    let concrete_vals: Vec<Vec<u8>> = vec![
        // 0
        vec![0, 0, 0, 0],
        // 0
        vec![0, 0, 0, 0],
        // 256ul
        vec![0, 1, 0, 0, 0, 0, 0, 0],
        // 0
        vec![0],
    ];
    kani::concrete_playback_run(concrete_vals, sp_noop_parents);
}

// native replay when recorded: dev=values-do-not-fit: library/kani/src/concrete_playback.rs:61:46: Not enough det vals found  release=values-do-not-fit: library/kani/src/concrete_playback.rs:61:46: Not enough det vals found
