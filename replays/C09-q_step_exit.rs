// VERIF-REPLAY-META {"property": "C09", "pkg": "fastrace", "mod": "util::spsc", "name": "q_step_exit", "path": "util::spsc::verif_harness::q_step_exit", "failed_checks": ["\"order broken at thread exit (1)\" @ verif-harness/spsc.rs:294:9 in function util::spsc::verif_harness::q_step_exit", "\"order broken at thread exit (2)\" @ verif-harness/spsc.rs:295:9 in function util::spsc::verif_harness::q_step_exit"], "created": "2026-10-01T07:02:15"}
// Counterexample found by Kani/CBMC; replay with:  ./run.py --replay /verif/replays/C09-q_step_exit.rs
// The values are the solver's assignment to the harness's kani::any() calls, in call order.
/// Counterexample for harness `util::spsc::verif_harness::q_step_exit`
///
/// Failed check `util::spsc::verif_harness::q_step_exit.assertion.8`: "order broken at thread exit (1)"
/// at verif-harness/spsc.rs:294:9 in function util::spsc::verif_harness::q_step_exit

#[test]
fn kani_concrete_playback_q_step_exit() {
    let concrete_vals: Vec<Vec<u8>> = vec![
        // 1ul
        vec![1, 0, 0, 0, 0, 0, 0, 0],
        // 1ul
        vec![1, 0, 0, 0, 0, 0, 0, 0],
        // 2ul
        vec![2, 0, 0, 0, 0, 0, 0, 0],
        // 0
        vec![0],
        // 1
        vec![1],
    ];
    kani::concrete_playback_run(concrete_vals, q_step_exit);
}

// native replay when recorded: dev=fails: /var/tmp/fv-dev2/verif-harness/spsc.rs:294:9: order broken at thread exit (1)  release=fails: /var/tmp/fv-dev2/verif-harness/spsc.rs:294:9: order broken at thread exit (1)
