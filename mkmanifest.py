#!/usr/bin/env python3
"""Regenerate MANIFEST.json from vlib/specs.py (claims) and vlib/claims.py (texts)."""
import json, os, sys
sys.path.insert(0, os.path.dirname(os.path.abspath(__file__)))
from vlib import specs, claims

checks = []
for pid in sorted(specs.PROPS):
    if pid in claims.NOT_APPLICABLE or pid not in claims.CLAIMS:
        continue
    if not specs.harnesses_for(pid, "quick"):
        raise SystemExit(f"{pid} is claimed but has no quick harness")
    c = claims.CLAIMS[pid]
    checks.append({
        "property_id": pid,
        "quick_cmd": f"./run.py {pid} --tier quick",
        "thorough_cmd": f"./run.py {pid} --tier thorough",
        "evidence_file": f"evidence/{pid}.json",
        "replay_cmd_template": "./run.py --replay {path}",
        "engine": "kani-cbmc",
        "level_claimed": {"category": "model_checking", "text": c["text"], "design_ref": specs.PROPS[pid].get("design_ref", "DESIGN.md §5")},
        "level_note": c["note"],
        "technique": c.get("technique", "bounded model checking of the real Rust source: Kani 0.68 (MIR->goto) + CBMC 6.11 symbolic execution + CaDiCaL SAT, kani::any() inputs, unwinding assertions on"),
    })
m = {
    "version": 1,
    "setup_cmd": "./setup.sh",
    "hooks": {
        "guard": "cfg(kani)",
        "enable": "none in /repo: every check copies /repo's working tree to a scratch overlay, appends #[cfg(kani)] child modules to the copy and runs `cargo kani` there (cfg(kani) is set by Kani itself)",
        "baseline_off_cmd": "cd /repo && cargo test --workspace --no-fail-fast --offline",
        "source_commits": claims.SOURCE_COMMITS,
        "add_only": True,
    },
    "engines": [{"name": "kani-cbmc", "path": "run.py", "serves_properties": [c["property_id"] for c in checks],
                 "kind_free_text": "Kani 0.68.0 + CBMC 6.11.0 + CaDiCaL: bounded model checking of the compiled Rust source with symbolic inputs, schedules (yield hook in the ring model) and clock"}],
    "checks": checks,
    "notes": claims.NOTES,
    "not_applicable": [{"property_id": k, "reason": v} for k, v in sorted(claims.NOT_APPLICABLE.items())],
}
json.dump(m, open(os.path.join(os.path.dirname(os.path.abspath(__file__)), "MANIFEST.json"), "w"), indent=1)
print("MANIFEST.json:", len(checks), "checks,", len(m["not_applicable"]), "not applicable")
