#!/usr/bin/env bash
# Build everything the checks need from files on disk only (offline).
#  - .cache/vendor : directory source of /repo's locked dependencies, usable by Kani's own cargo
#    (Kani's cargo hashes the registry directory differently from the repo's cargo 1.80, so the
#    registry cache is invisible to it; a vendored directory source is readable by any cargo).
set -euo pipefail
cd "$(dirname "$0")"
export CARGO_NET_OFFLINE=true
V=.cache/vendor
mkdir -p .cache
LOCKSUM=$(sha256sum /repo/Cargo.lock | cut -d' ' -f1)
if [ ! -f "$V/.ok" ] || [ "$(cat "$V/.ok" 2>/dev/null)" != "$LOCKSUM" ]; then
  rm -rf "$V" "$V.tmp"
  (cd /repo && cargo +1.80.0 vendor --offline --respect-source-config --versioned-dirs "$OLDPWD/$V.tmp" >/dev/null 2>&1)
  mv "$V.tmp" "$V"
  echo "$LOCKSUM" > "$V/.ok"
fi
command -v cargo-kani >/dev/null || { echo "cargo-kani missing" >&2; exit 1; }
cargo kani --version >/dev/null
python3 -c "import json,sys; json.load(open('MANIFEST.json'))"
echo "setup ok: vendor=$(du -sh $V | cut -f1)"
