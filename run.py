#!/usr/bin/env python3
"""Solver-based checks of fast/fastrace (Kani 0.68 / CBMC 6.11 / CaDiCaL) — see DESIGN.md.

  ./run.py <Cxx> [--tier quick|thorough] [--jobs N] [--keep] [--only HARNESS]
  ./run.py --replay <replays/file.rs>

exit 0: every harness of the property held (known findings are printed, not failed)
exit 1: a violation was found AND reproduced natively; prints `VIOLATION property=<id> replay=<path>`
exit 2: inconclusive (timeout, out of memory, overlay does not compile, vacuous harness,
        counterexample that does not reproduce) — never reported as a pass, never as a violation
"""
import argparse
import concurrent.futures as cf
import json
import os
import shutil
import sys
import time

sys.path.insert(0, os.path.dirname(os.path.abspath(__file__)))
from vlib import overlay, kani, specs, replay, evidence  # noqa: E402

VERIF = os.path.dirname(os.path.abspath(__file__))


def log(*a):
    print(*a, flush=True)


def load_known():
    p = os.path.join(VERIF, "known_findings.json")
    if not os.path.exists(p):
        return {"findings": [], "fixed": []}
    return json.load(open(p))


def match_known(known, prop, hname, failed_checks):
    """Return (matched_findings, unmatched_failed_checks).  A finding is keyed by harness and by
    regexes on the failed check's description / location, so a different failure of the same
    harness or property is still reported."""
    import re
    matched, unmatched = [], []
    for fc in failed_checks:
        hit = None
        for k in known.get("findings", []):
            if prop not in k.get("properties", [k.get("property")]):
                continue
            if k["harness"] != hname:
                continue
            if re.search(k["match_desc"], fc["desc"]) and re.search(k.get("match_loc", ""), fc["loc"]):
                hit = k
                break
        if hit:
            if hit not in matched:
                matched.append(hit)
        else:
            unmatched.append(fc)
    return matched, unmatched


def main():
    ap = argparse.ArgumentParser()
    ap.add_argument("prop", nargs="?")
    ap.add_argument("--tier", default=os.environ.get("VERIF_TIER", "quick"), choices=["quick", "thorough"])
    ap.add_argument("--jobs", type=int, default=int(os.environ.get("VERIF_JOBS", "8")))
    ap.add_argument("--keep", action="store_true", help="keep the scratch overlay (debugging)")
    ap.add_argument("--only", action="append", help="run only this harness (debugging; no evidence written)")
    ap.add_argument("--replay", help="re-run a stored counterexample natively against /repo's current tree")
    ap.add_argument("--scratch", default=None)
    ap.add_argument("--mod", action="append", help="with property DEBUG: run every harness of this module")
    args = ap.parse_args()
    seed = int(os.environ.get("VERIF_SEED", "0") or 0)

    scratch = args.scratch or os.environ.get("VERIF_SCRATCH") or f"/var/tmp/fastrace-verif.{os.getpid()}"
    if args.replay:
        rc = replay.replay_file(args.replay, scratch, keep=args.keep)
        sys.exit(rc)

    if args.prop == "DEBUG":
        specs.PROPS["DEBUG"] = dict(bounds="", not_covered=[])
        for h in specs.HARNESSES:
            if h["mod"] in (args.mod or []) or h["name"] in (args.only or []):
                h["props"] = tuple(h["props"]) + ("DEBUG",)
                h["tiers"]["DEBUG"] = "quick"
        args.only = args.only or ["*"]
    if not args.prop or args.prop not in specs.PROPS:
        log("usage: run.py <property> ; known:", " ".join(sorted(specs.PROPS)))
        sys.exit(2)
    prop = args.prop
    P = specs.PROPS[prop]
    hs = [h for h in specs.harnesses_for(prop, args.tier)]
    if args.only and args.only != ["*"]:
        hs = [h for h in hs if h["name"] in args.only]
    t_start = time.time()
    known = load_known()
    results = {}
    violations = []      # (harness, replay path)
    inconclusive = []
    known_hits = []
    replayed = 0
    try:
        if os.path.exists(scratch):
            shutil.rmtree(scratch)
        try:
            overlay.build(scratch)
        except overlay.OverlayError as e:
            log(f"INCONCLUSIVE property={prop} overlay: {e}")
            evidence.write(prop, args.tier, seed, P, hs, {}, time.time() - t_start, 0, 0,
                           note=f"overlay error: {e}")
            sys.exit(2)
        logs = os.path.join(scratch, "logs")
        os.makedirs(logs, exist_ok=True)
        pkgs = sorted(set(h["pkg"] for h in hs))
        with cf.ThreadPoolExecutor(max_workers=max(1, min(len(pkgs), 3))) as ex:
            futs = {p: ex.submit(kani.codegen, scratch, p, os.path.join(logs, f"codegen-{p}.log")) for p in pkgs}
        build_ok = True
        for p, f in futs.items():
            ok, secs = f.result()
            log(f"[build] {p}: {'ok' if ok else 'FAILED'} in {secs:.0f}s")
            if not ok:
                build_ok = False
                import re as _re
                txt = open(os.path.join(logs, f"codegen-{p}.log"), errors="replace").read()
                errs = _re.findall(r"^error(?:\[E\d+\])?: .*(?:\n\s+-->.*)?", txt, _re.M)
                for e in errs[:8]:
                    log("    " + e.replace("\n", " ")[:300])
        if not build_ok:
            log(f"INCONCLUSIVE property={prop} the overlay of the current tree does not compile under Kani "
                f"(an anchored item a harness names has changed?)")
            evidence.write(prop, args.tier, seed, P, hs, {}, time.time() - t_start, 0, 0,
                           note="overlay does not compile")
            sys.exit(2)

        par = [h for h in hs if not h.get("alone")]
        alone = [h for h in hs if h.get("alone")]

        import threading
        budget = {"free": float(os.environ.get("VERIF_MEM_GB", "52"))}
        cv = threading.Condition()

        def run1(h):
            need = min(float(h.get("mem_gb", 12)), float(os.environ.get("VERIF_MEM_GB", "52")))
            with cv:
                while budget["free"] < need:
                    cv.wait()
                budget["free"] -= need
            try:
                r = kani.run_harness(scratch, h, os.path.join(logs, f"{h['name']}.log"))
            finally:
                with cv:
                    budget["free"] += need
                    cv.notify_all()
            log(f"[{prop}] {h['name']}: {r['outcome']}  ({r['wall_s']}s, {r['checks_total']} checks, "
                f"{r['steps']} steps, {r['sat_variables']} vars)")
            return r

        with cf.ThreadPoolExecutor(max_workers=max(1, args.jobs)) as ex:
            for h, r in zip(par, ex.map(run1, par)):
                results[h["name"]] = r
        for h in alone:
            results[h["name"]] = run1(h)

        for h in hs:
            r = results[h["name"]]
            if r["outcome"] == "held":
                continue
            if r["outcome"].startswith("inconclusive"):
                inconclusive.append((h, r["outcome"]))
                _save_log(prop, h, r)
                continue
            # violated: known finding?
            fails = [f for f in r["failed"] if "unwinding assertion" not in f["desc"] or h.get("termination")]
            matched, unmatched = match_known(known, prop, h["name"], fails)
            for k in matched:
                known_hits.append(k)
            if not unmatched:
                r["outcome"] = "known-finding"
                continue
            # candidate violation -> replay natively before reporting
            log(f"[{prop}] {h['name']}: candidate violation, failed checks:")
            for f in unmatched[:8]:
                log(f"    - {f['desc']}  @ {f['loc']}")
            rp = replay.make_and_run(scratch, prop, h, r, unmatched, logs)
            replayed += 1
            r["replay"] = rp
            if rp["reproduced"]:
                violations.append((h, rp["path"]))
            else:
                inconclusive.append((h, "inconclusive:counterexample-did-not-reproduce(" + rp.get("why", "") + ")"))
                _save_log(prop, h, r)

        wall = time.time() - t_start
        if not args.only:
            evidence.write(prop, args.tier, seed, P, hs, results, wall, len(violations), replayed,
                           known_hits=known_hits, inconclusive=[(h["name"], why) for h, why in inconclusive])
        for k in known_hits:
            log(f"KNOWN-FINDING: property={prop} {k['id']}: {k['what']}")
        for h, why in inconclusive:
            log(f"INCONCLUSIVE property={prop} harness={h['name']} {why}")
        for h, path in violations:
            log(f"VIOLATION property={prop} replay={path}")
        if violations:
            sys.exit(1)
        if inconclusive:
            sys.exit(2)
        log(f"OK property={prop} tier={args.tier} harnesses={len(hs)} wall={wall:.0f}s")
        sys.exit(0)
    finally:
        if not args.keep:
            shutil.rmtree(scratch, ignore_errors=True)


def _save_log(prop, h, r):
    try:
        d = os.path.join(VERIF, "replays")
        os.makedirs(d, exist_ok=True)
        shutil.copy(r["log"], os.path.join(d, f"{prop}-{h['name']}.log"))
    except Exception:
        pass


if __name__ == "__main__":
    main()
